// C13 — the compression bit RSV1 is set and accepted only on the first frame of a message.
package c13

import (
	"bytes"
	"compress/flate"
	"errors"
	"fmt"
	"io"
	"math/rand"
	"testing"

	"github.com/gobwas/ws"
	"github.com/gobwas/ws/wsflate"
	"github.com/gobwas/ws/wsutil"
	"pgregory.net/rapid"

	"verif/harness/gen"
	"verif/harness/hx"
	"verif/harness/ref"
	"verif/harness/tx"
)

func TestMain(m *testing.M) { hx.Main(m, "C13") }

const rsv1 = 0x4 // RSV1 in the 3-bit Rsv field (RSV2 = 2, RSV3 = 1)

func toRef(h ws.Header) ref.Header {
	return ref.Header{Fin: h.Fin, Rsv: h.Rsv, Op: byte(h.OpCode), Masked: h.Masked, Mask: h.Mask, Length: h.Length}
}

func isProtocolError(err error) bool {
	var pe ws.ProtocolError
	return errors.As(err, &pe)
}

func firstData(op byte) bool { return op == ref.OpText || op == ref.OpBinary }
func contOrCtl(op byte) bool {
	return op == ref.OpCont || op == ref.OpClose || op == ref.OpPing || op == ref.OpPong
}

// ---------------------------------------------------------------------------
// SetBit / UnsetBit / IsCompressed / MessageState over opcode x rsv x fin

type bitCase struct {
	Op    byte `json:"op"`
	Rsv   byte `json:"rsv"`
	Fin   bool `json:"fin"`
	Prior bool `json:"prior_state"`
}

func TestBitHelpersExhaustive(t *testing.T) {
	n := 0
	for op := byte(0); op < 16; op++ {
		for rsv := byte(0); rsv < 8; rsv++ {
			for _, fin := range []bool{false, true} {
				h := ws.Header{Fin: fin, Rsv: rsv, OpCode: ws.OpCode(op), Masked: true, Mask: [4]byte{1, 2, 3, 4}, Length: 77 + int64(op)}
				had := rsv&rsv1 != 0
				cleared := h
				cleared.Rsv = rsv &^ rsv1
				set := h
				set.Rsv = rsv | rsv1
				kind := "reserved"
				switch {
				case firstData(op):
					kind = "first"
				case contOrCtl(op), op&0x8 != 0:
					kind = "cont/ctl" // 0xB-0xF are control frames too (RFC 6455 §5.2: opcode MSB set)
				}
				// sameButRsv1: nothing but RSV1 may differ
				sameButRsv1 := func(g ws.Header) bool { g.Rsv = g.Rsv&^rsv1 | rsv&rsv1; return g == h }

				for _, prior := range []bool{false, true} {
					n++
					hx.Eval()
					c := bitCase{op, rsv, fin, prior}
					if kind != "reserved" {
						hx.NonTrivial(hx.Hash("bits", op, rsv, fin, prior), func() interface{} {
							return map[string]interface{}{"test": "bit-helpers", "op": op, "rsv": rsv, "fin": fin, "prior_state": prior}
						})
					}

					// --- receive direction
					var s wsflate.MessageState
					s.SetCompressed(prior)
					g, err := s.UnsetBits(h)
					g2, was, err2 := wsflate.UnsetBit(h)
					isc, err3 := wsflate.IsCompressed(h)
					switch kind {
					case "first":
						if err != nil || err2 != nil || err3 != nil {
							hx.Failf(t, c, "first data frame refused: UnsetBits err=%v, UnsetBit err=%v, IsCompressed err=%v", err, err2, err3)
							return
						}
						if g != cleared || g2 != cleared {
							hx.Failf(t, c, "UnsetBits/UnsetBit returned %+v / %+v, want RSV1 cleared and nothing else changed: %+v", g, g2, cleared)
							return
						}
						if s.IsCompressed() != had || was != had || isc != had {
							hx.Failf(t, c, "compressed reported as state=%v UnsetBit=%v IsCompressed=%v, frame's RSV1 is %v", s.IsCompressed(), was, isc, had)
							return
						}
					case "cont/ctl":
						if had {
							if !isProtocolError(err) || !isProtocolError(err2) || !isProtocolError(err3) {
								hx.Failf(t, c, "RSV1 on a continuation/control frame: UnsetBits err=%v, UnsetBit err=%v, IsCompressed err=%v; want a ws.ProtocolError from each", err, err2, err3)
								return
							}
						} else {
							if err != nil || err2 != nil || err3 != nil {
								hx.Failf(t, c, "frame without RSV1 refused: %v / %v / %v", err, err2, err3)
								return
							}
							if g != h || g2 != h {
								hx.Failf(t, c, "header changed: %+v / %+v, want %+v", g, g2, h)
								return
							}
							if s.IsCompressed() != prior {
								hx.Failf(t, c, "message state changed from %v to %v by a continuation/control frame", prior, s.IsCompressed())
								return
							}
							if was || isc {
								hx.Failf(t, c, "UnsetBit/IsCompressed report a compressed frame without RSV1")
								return
							}
						}
					default: // reserved opcodes: outcome open, but only RSV1 may be touched
						if err == nil && !(sameButRsv1(g)) {
							hx.Failf(t, c, "UnsetBits changed more than RSV1: %+v from %+v", g, h)
							return
						}
					}

					// --- send direction
					var w wsflate.MessageState
					w.SetCompressed(prior)
					g, err = w.SetBits(h)
					if w.IsCompressed() != prior {
						hx.Failf(t, c, "SetBits changed the message state from %v to %v", prior, w.IsCompressed())
						return
					}
					g2, err2 = wsflate.SetBit(h)
					switch {
					case had:
						// the header already carries RSV1 (an earlier extension in the chain set it): refusing it
						// is fine; a header that is let through must obey "RSV1 only on the first frame of a
						// message marked compressed"
						if err == nil && (g.Rsv&rsv1 != 0) != (kind == "first" && prior) && kind != "reserved" {
							hx.Failf(t, c, "MessageState(compressed=%v).SetBits let %+v through as %+v", prior, h, g)
							return
						}
						if err2 == nil && (g2.Rsv&rsv1 != 0) != (kind == "first") && kind != "reserved" {
							hx.Failf(t, c, "SetBit let %+v through as %+v", h, g2)
							return
						}
						if (err == nil && !sameButRsv1(g)) || (err2 == nil && !sameButRsv1(g2)) {
							hx.Failf(t, c, "SetBits/SetBit changed more than RSV1: %+v / %+v from %+v", g, g2, h)
							return
						}
					case kind == "first":
						want := h
						if prior {
							want = set
						}
						if err != nil || g != want {
							hx.Failf(t, c, "MessageState(compressed=%v).SetBits = %+v, %v; want %+v", prior, g, err, want)
							return
						}
						if err2 != nil || g2 != set {
							hx.Failf(t, c, "SetBit = %+v, %v; want %+v", g2, err2, set)
							return
						}
					case kind == "cont/ctl":
						// must never gain RSV1; the attached state must let it pass (a fragmented message and
						// control frames are written through it)
						if err != nil || g != h {
							hx.Failf(t, c, "MessageState(compressed=%v).SetBits on a continuation/control header = %+v, %v; want it unchanged, nil", prior, g, err)
							return
						}
						if err2 == nil && g2 != h {
							hx.Failf(t, c, "SetBit changed a continuation/control header to %+v", g2)
							return
						}
					default:
						if err == nil && !sameButRsv1(g) {
							hx.Failf(t, c, "SetBits changed more than RSV1: %+v from %+v", g, h)
							return
						}
					}
				}
			}
		}
	}
	hx.Part("bit helpers: opcode(16) x rsv(8) x fin(2) x prior state(2)", int64(n), true)
}

// ---------------------------------------------------------------------------
// writer side: wire invariant

type wireMsg struct {
	Op         byte
	Compressed bool // value of the message state when the first frame went out
	Frames     int
	Payload    []byte // concatenated data payloads
	Ctl        int    // control frames that went out between its frames
}

// wireTracker consumes the frames appearing on the wire after every action.
type wireTracker struct {
	rec    *tx.Rec
	off    int
	client bool
	rsv2   bool // a second send extension sets RSV2 on every data frame
	open   *wireMsg
	done   []wireMsg
	shape  []byte
}

// take parses what was written since the last call.
func (w *wireTracker) take() ([]ref.Frame, error) {
	all := w.rec.Bytes()
	fs, rest, err := ref.ParseFrames(all[w.off:])
	if len(rest) != 0 {
		return fs, fmt.Errorf("wire does not parse into whole frames after offset %d: %v", w.off, err)
	}
	w.off = len(all)
	for _, f := range fs {
		if f.H.Masked != w.client {
			return fs, fmt.Errorf("frame %v: masked=%v on a writer with client side=%v", f.H, f.H.Masked, w.client)
		}
	}
	return fs, nil
}

// data checks the data frames an action of message (op, flag) produced.
// otherExt: RSV2 is driven by a second test extension and is not judged.
func (w *wireTracker) data(fs []ref.Frame, op byte, flag bool, final bool) error {
	for i, f := range fs {
		if ref.IsControl(f.H.Op) {
			return fmt.Errorf("data action produced a control frame %v", f.H)
		}
		if w.open == nil {
			if f.H.Op != op {
				return fmt.Errorf("first frame of the message has opcode %#x, writer was set to %#x", f.H.Op, op)
			}
			if got := f.H.Rsv&rsv1 != 0; got != flag {
				return fmt.Errorf("first frame %v of a message marked compressed=%v has RSV1=%v", f.H, flag, got)
			}
			w.open = &wireMsg{Op: op, Compressed: flag}
		} else {
			if f.H.Op != ref.OpCont {
				return fmt.Errorf("frame %d of the message has opcode %#x, want continuation", w.open.Frames, f.H.Op)
			}
			if f.H.Rsv&rsv1 != 0 {
				return fmt.Errorf("continuation frame %v (frame %d of a message marked compressed=%v) carries RSV1", f.H, w.open.Frames, w.open.Compressed)
			}
		}
		if f.H.Rsv&1 != 0 {
			return fmt.Errorf("frame %v carries RSV3, which no attached extension sets", f.H)
		}
		// RSV2 belongs to the other attached extension (sets it on every frame) or to nobody:
		// the message state sets "the Per-Message Compression bit" and nothing else
		if (f.H.Rsv&2 != 0) != w.rsv2 {
			return fmt.Errorf("frame %v: RSV2=%v, but the second attached extension sets it on every frame=%v", f.H, f.H.Rsv&2 != 0, w.rsv2)
		}
		w.open.Frames++
		w.open.Payload = append(w.open.Payload, f.Payload...)
		c := byte('d')
		if f.H.Fin {
			c = 'D'
		}
		w.shape = append(w.shape, c)
		if f.H.Fin != (final && i == len(fs)-1) {
			return fmt.Errorf("frame %v: fin=%v (final flush=%v, frame %d of %d of this action)", f.H, f.H.Fin, final, i+1, len(fs))
		}
	}
	if final && w.open != nil {
		w.done = append(w.done, *w.open)
		w.open = nil
	}
	return nil
}

func (w *wireTracker) control(fs []ref.Frame, op byte, payload []byte) error {
	if len(fs) != 1 {
		return fmt.Errorf("control write produced %d frames", len(fs))
	}
	f := fs[0]
	if f.H.Op != op || !f.H.Fin || !bytes.Equal(f.Payload, payload) {
		return fmt.Errorf("control frame %v payload %x, sent op %#x payload %x", f.H, f.Payload, op, payload)
	}
	if f.H.Rsv&rsv1 != 0 {
		return fmt.Errorf("control frame %v carries RSV1", f.H)
	}
	if f.H.Rsv&3 != 0 {
		return fmt.Errorf("control frame %v carries RSV2/RSV3, which nothing on its path sets", f.H)
	}
	if w.open != nil {
		w.open.Ctl++
	}
	w.shape = append(w.shape, 'c')
	return nil
}

var bufSizes = []int{1, 2, 3, 5, 8, 16, 31, 64, 100, 125, 126, 127, 200, 0}

type writerSetup struct {
	Client    bool
	Ctor      int
	N         int
	Rsv2Ext   int // 0 none, 1 before the message state, 2 after it
	NoFlush   bool
	ExtendedS bool
	FuncExt   bool // message state attached through the wsutil.SendExtensionFunc adapter
}

func (s writerSetup) state() ws.State {
	st := ws.StateServerSide
	if s.Client {
		st = ws.StateClientSide
	}
	if s.ExtendedS {
		st |= ws.StateExtended
	}
	return st
}

func genWriterSetup(t *rapid.T) writerSetup {
	return writerSetup{
		Client:    rapid.Bool().Draw(t, "client"),
		Ctor:      rapid.IntRange(0, 5).Draw(t, "ctor"),
		FuncExt:   rapid.IntRange(0, 2).Draw(t, "funcext") == 0,
		N:         rapid.SampledFrom(bufSizes).Draw(t, "bufsize"),
		Rsv2Ext:   rapid.SampledFrom([]int{0, 0, 0, 1, 2}).Draw(t, "rsv2ext"),
		NoFlush:   rapid.IntRange(0, 9).Draw(t, "noflush") == 0,
		ExtendedS: rapid.IntRange(0, 3).Draw(t, "extended") != 0,
	}
}

func (s writerSetup) build(dest io.Writer, op ws.OpCode, ms *wsflate.MessageState) *wsutil.Writer {
	var w *wsutil.Writer
	switch {
	case s.Ctor == 0 || s.N == 0:
		w = wsutil.NewWriterSize(dest, s.state(), op, s.N)
	case s.Ctor == 1:
		n := s.N + 14 // raw size incl. header reserve
		w = wsutil.NewWriterBufferSize(dest, s.state(), op, n)
	case s.Ctor == 2:
		w = wsutil.NewWriterBuffer(dest, s.state(), op, make([]byte, s.N+14))
	case s.Ctor == 3:
		w = wsutil.NewWriter(dest, s.state(), op)
	case s.Ctor == 4:
		w = wsutil.GetWriter(dest, s.state(), op, s.N+14) // handed back with PutWriter at the end of the case
	default:
		// a writer with a history: other destination, side and opcode, an extension that sets
		// RSV1 on everything, a fragmented message; then Reset (documented to drop extensions)
		other := ws.StateClientSide
		if s.Client {
			other = ws.StateServerSide
		}
		w = wsutil.NewWriterBufferSize(tx.NewRec(), other, ws.OpPing, s.N+14)
		w.SetExtensions(wsutil.SendExtensionFunc(func(h ws.Header) (ws.Header, error) {
			h.Rsv |= rsv1
			return h, nil
		}))
		w.Write([]byte("left over from the previous owner"))
		w.FlushFragment()
		w.Write([]byte("unflushed"))
		w.Reset(dest, s.state(), op)
	}
	var ext wsutil.SendExtension = ms
	if s.FuncExt {
		ext = wsutil.SendExtensionFunc(ms.SetBits)
	}
	rsv2 := wsutil.SendExtensionFunc(func(h ws.Header) (ws.Header, error) {
		h.Rsv |= 0x2
		return h, nil
	})
	switch s.Rsv2Ext {
	case 0:
		w.SetExtensions(ext)
	case 1:
		w.SetExtensions(rsv2, ext)
	default:
		w.SetExtensions(ext, rsv2)
	}
	if s.NoFlush {
		w.DisableFlush()
	}
	return w
}

func genLen(t *rapid.T, label string, w *wsutil.Writer) int {
	avail, size := w.Available(), w.Size()
	var n int
	switch rapid.IntRange(0, 7).Draw(t, label+".kind") {
	case 0:
		n = 0
	case 1:
		n = 1
	case 2:
		n = avail - 1
	case 3:
		n = avail
	case 4:
		n = avail + 1
	case 5:
		n = 2*size + 3
	default:
		n = rapid.IntRange(0, 300).Draw(t, label+".n")
	}
	if n < 0 {
		n = 0
	}
	if n > 10000 {
		n = 10000
	}
	return n
}

func sendControl(t *rapid.T, dest io.Writer, setup writerSetup, ms *wsflate.MessageState, wt *wireTracker) {
	op := rapid.SampledFrom([]ws.OpCode{ws.OpPing, ws.OpPong}).Draw(t, "ctl.op")
	p := gen.Filled(rapid.SampledFrom([]int{0, 1, 5, 124, 125}).Draw(t, "ctl.len"), rapid.Byte().Draw(t, "ctl.fill"))
	how := rapid.IntRange(0, 2).Draw(t, "ctl.how")
	var err error
	switch how {
	case 0:
		cw := wsutil.NewControlWriter(dest, setup.state(), op)
		if _, err = cw.Write(p); err == nil {
			err = cw.Flush()
		}
		if len(p) == 0 {
			// nothing written: ControlWriter.Flush has nothing to send (C06/C08 territory)
			if fs, _ := wt.take(); len(fs) == 0 {
				return
			} else if e := wt.control(fs, byte(op), p); e != nil {
				t.Fatalf("ControlWriter: %v", e)
			}
			return
		}
	case 1:
		err = wsutil.WriteMessage(dest, setup.state(), op, p)
	default:
		// a fragment writer for control frames with the same message state attached
		cw := wsutil.NewWriterSize(dest, setup.state(), op, 125)
		if setup.FuncExt {
			cw.SetExtensions(wsutil.SendExtensionFunc(ms.SetBits))
		} else {
			cw.SetExtensions(ms)
		}
		if _, err = cw.Write(p); err == nil {
			err = cw.Flush()
		}
	}
	if err != nil {
		t.Fatalf("control write (how=%d): %v", how, err)
	}
	fs, perr := wt.take()
	if perr != nil {
		t.Fatalf("after control write: %v", perr)
	}
	if e := wt.control(fs, byte(op), p); e != nil {
		t.Fatalf("control write (how=%d, message state compressed=%v): %v", how, ms.IsCompressed(), e)
	}
}

func TestWriterWire(t *testing.T) {
	hx.Check(t, 30, func(t *rapid.T) {
		rand.Seed(rapid.Int64().Draw(t, "randseed"))
		setup := genWriterSetup(t)
		rec := tx.NewRec()
		var ms wsflate.MessageState
		ops := []ws.OpCode{ws.OpText, ws.OpBinary}
		op := rapid.SampledFrom(ops).Draw(t, "op0")
		w := setup.build(rec, op, &ms)
		wt := &wireTracker{rec: rec, client: setup.Client, rsv2: setup.Rsv2Ext != 0}
		nmsg := rapid.IntRange(1, 4).Draw(t, "msgs")
		hx.Eval()
		for m := 0; m < nmsg; m++ {
			// a Writer serves any number of messages of its opcode; ResetOp is only needed to change it
			if rapid.Bool().Draw(t, "resetop") {
				op = rapid.SampledFrom(ops).Draw(t, "op")
				w.ResetOp(op)
				hx.Class("writer/next-message=after-ResetOp")
			} else if m > 0 {
				hx.Class("writer/next-message=same-writer-no-ResetOp")
			}
			flag := rapid.Bool().Draw(t, "compressed")
			ms.SetCompressed(flag)
			var accepted []byte
			wrote := false
			step := func(what string, err error, final bool) {
				if err != nil {
					t.Fatalf("message %d: %s: %v", m, what, err)
				}
				fs, perr := wt.take()
				if perr != nil {
					t.Fatalf("message %d after %s: %v", m, what, perr)
				}
				// the flag that counts is the one in force when the first frame goes out
				f := flag
				if wt.open != nil {
					f = wt.open.Compressed
				}
				if e := wt.data(fs, byte(op), f, final); e != nil {
					t.Fatalf("message %d (%+v) after %s: %v\nwire so far: %s", m, setup, what, e, wt.shape)
				}
			}
			for a := rapid.IntRange(0, 7).Draw(t, "actions"); a > 0; a-- {
				switch rapid.IntRange(0, 12).Draw(t, "action") {
				case 12:
					// abandon the message after >= 1 fragment went out: ResetOp drops what is buffered and
					// what follows is a NEW message (first frame: the given opcode, RSV1 iff compressed)
					if wt.open == nil {
						continue
					}
					op = rapid.SampledFrom(ops).Draw(t, "abandon.op")
					w.ResetOp(op)
					if fs, _ := wt.take(); len(fs) != 0 {
						t.Fatalf("ResetOp sent %d frames", len(fs))
					}
					wt.open = nil
					wt.shape = append(wt.shape, 'A')
					accepted, wrote = nil, false
					flag = rapid.Bool().Draw(t, "abandon.compressed")
					ms.SetCompressed(flag)
					hx.Class("writer/message-abandoned-with-ResetOp-after-fragments")
				case 10, 11:
					p := gen.Filled(genLen(t, "readfrom", w), byte(len(accepted)))
					rs := tx.NewSrc(p, gen.Chunks(t, "readfrom.chunks"))
					rs.EOFWithData = rapid.Bool().Draw(t, "readfrom.eofwithdata")
					n, err := w.ReadFrom(rs)
					if n != int64(len(p)) {
						t.Fatalf("ReadFrom(%d bytes) = %d, %v", len(p), n, err)
					}
					accepted = append(accepted, p...)
					wrote = true
					step(fmt.Sprintf("ReadFrom(%d)", len(p)), err, false)
				case 0, 1, 2, 3:
					p := gen.Filled(genLen(t, "write", w), byte(len(accepted)))
					n, err := w.Write(p)
					if n != len(p) {
						t.Fatalf("Write(%d) = %d, %v", len(p), n, err)
					}
					accepted = append(accepted, p...)
					wrote = true
					step(fmt.Sprintf("Write(%d)", len(p)), err, false)
				case 4, 5:
					step("FlushFragment", w.FlushFragment(), false)
				case 6:
					if w.Buffered() != 0 && rapid.Bool().Draw(t, "through.flush-first") {
						step("FlushFragment", w.FlushFragment(), false)
					}
					p := gen.Filled(genLen(t, "through", w), byte(len(accepted)))
					n, err := w.WriteThrough(p)
					if w.Buffered() != 0 && err == wsutil.ErrNotEmpty {
						if fs, _ := wt.take(); len(fs) != 0 {
							t.Fatalf("WriteThrough refused with ErrNotEmpty but sent %d frames", len(fs))
						}
						continue
					}
					if n != len(p) {
						t.Fatalf("WriteThrough(%d) = %d, %v", len(p), n, err)
					}
					accepted = append(accepted, p...)
					wrote = true
					step(fmt.Sprintf("WriteThrough(%d)", len(p)), err, false)
				case 7, 8:
					sendControl(t, rec, setup, &ms, wt)
				default:
					// the state object may be shared with the receiving side: a change after the
					// first frame went out must not reach the continuation frames
					if wt.open != nil {
						flag = !flag
						ms.SetCompressed(flag)
						hx.Class("writer/state-toggled-mid-message")
					}
				}
			}
			if !wrote {
				p := gen.Filled(genLen(t, "write", w), 9)
				n, err := w.Write(p)
				if n != len(p) {
					t.Fatalf("Write(%d) = %d, %v", len(p), n, err)
				}
				accepted = append(accepted, p...)
				step(fmt.Sprintf("Write(%d)", len(p)), err, false)
			}
			before := len(wt.done)
			step("Flush", w.Flush(), true)
			if len(wt.done) != before+1 {
				t.Fatalf("message %d: Flush after %d accepted bytes did not complete a message on the wire", m, len(accepted))
			}
			msg := wt.done[len(wt.done)-1]
			if !bytes.Equal(msg.Payload, accepted) {
				t.Fatalf("message %d: wire payload (%d bytes) differs from the accepted bytes (%d)", m, len(msg.Payload), len(accepted))
			}
			hx.Class(fmt.Sprintf("writer/compressed=%v/fragments=%s/ctl=%v", msg.Compressed, fragClass(msg.Frames), msg.Ctl > 0))
			if msg.Compressed && msg.Frames >= 2 && msg.Ctl > 0 {
				hx.NonTrivial(hx.Hash("writer", setup, string(wt.shape), m), func() interface{} {
					return map[string]interface{}{"test": "writer-wire", "setup": fmt.Sprintf("%+v", setup), "wire_shape": string(wt.shape), "message": m, "frames": msg.Frames, "interleaved_controls": msg.Ctl}
				})
			}
			if rapid.IntRange(0, 3).Draw(t, "ctl-between") == 0 {
				sendControl(t, rec, setup, &ms, wt)
			}
		}
		hx.Class(fmt.Sprintf("writer/ctor=%d/funcext=%v", setup.Ctor, setup.FuncExt))
		if setup.Ctor == 4 {
			wsutil.PutWriter(w)
		}
	})
}

func fragClass(n int) string {
	switch {
	case n <= 1:
		return "1"
	case n == 2:
		return "2"
	}
	return "3+"
}

// ---------------------------------------------------------------------------
// reader side

type seen struct {
	kind    byte // 'c' continuation, 'i' intermediate control
	h       ws.Header
	state   bool
	payload []byte
}

// badOp (>= 0): a continuation frame whose opcode was replaced by text/binary — a new data
// frame while a fragmented message is open (RFC 6455 §5.4), with or without RSV1.
func genRsvConversation(t *rapid.T, server bool) (frames []ref.Frame, violation, badOp int) {
	frames = gen.Conversation(t, "conv", gen.ConvOpts{Masked: server, MaxMsgs: 4, MaxPayload: 120, Close: true})
	mode := rapid.SampledFrom([]string{"legal", "legal", "one-violation", "one-violation", "arbitrary", "data-opcode-mid-message"}).Draw(t, "rsvmode")
	badOp = -1
	if mode == "data-opcode-mid-message" {
		var conts []int
		for i, f := range frames {
			if f.H.Op == ref.OpCont {
				conts = append(conts, i)
			}
		}
		if len(conts) > 0 {
			badOp = rapid.SampledFrom(conts).Draw(t, "bad-opcode-at")
			frames[badOp].H.Op = rapid.SampledFrom([]byte{ref.OpText, ref.OpBinary}).Draw(t, "bad-opcode")
		}
	}
	var others []int
	for i, f := range frames {
		if !firstData(f.H.Op) {
			others = append(others, i)
		}
	}
	bad := -1
	if mode == "one-violation" && len(others) > 0 {
		bad = rapid.SampledFrom(others).Draw(t, "violation-at")
	}
	violation = -1
	for i := range frames {
		h := &frames[i].H
		h.Rsv = byte(rapid.SampledFrom([]int{0, 0, 0, 1, 2, 3}).Draw(t, "rsv23"))
		switch {
		case mode == "arbitrary":
			h.Rsv = byte(rapid.IntRange(0, 7).Draw(t, "rsv"))
		case firstData(h.Op):
			if rapid.Bool().Draw(t, "rsv1") {
				h.Rsv |= rsv1
			}
		case i == bad:
			h.Rsv |= rsv1
		}
		if (i == badOp || (!firstData(h.Op) && h.Rsv&rsv1 != 0)) && violation < 0 {
			violation = i
		}
	}
	return frames, violation, badOp
}

func rsvShape(frames []ref.Frame) string {
	b := []byte(ref.Shape(frames))
	for _, f := range frames {
		b = append(b, '0'+f.H.Rsv)
	}
	return string(b)
}

func TestReaderSide(t *testing.T) {
	hx.Check(t, 30, func(t *rapid.T) {
		server := rapid.Bool().Draw(t, "server")
		frames, violation, badOp := genRsvConversation(t, server)
		chunks := gen.Chunks(t, "chunks")
		callbacks := rapid.IntRange(0, 3).Draw(t, "callbacks") != 0
		prior := rapid.Bool().Draw(t, "prior-state")
		wire := ref.EncodeAll(frames)
		src := tx.NewSrc(wire, chunks)
		src.EOFWithData = rapid.Bool().Draw(t, "eofwithdata")

		var ms wsflate.MessageState
		ms.SetCompressed(prior)
		// reader configuration: with header checks off the attached extensions run whatever the
		// Extended flag says; with checks on and Extended off the header check refuses RSV bits
		extended := rapid.IntRange(0, 3).Draw(t, "state-extended") != 0
		skipCheck := rapid.IntRange(0, 3).Draw(t, "skip-header-check") == 0
		if badOp >= 0 {
			skipCheck = false // the interleaving ban is the header check's; without it the outcome is open
		}
		state := ws.StateClientSide
		if server {
			state = ws.StateServerSide
		}
		if extended {
			state |= ws.StateExtended
		}
		hx.Class(fmt.Sprintf("reader/config/extended=%v/skip-header-check=%v", extended, skipCheck))
		if !extended && !skipCheck {
			violation = -1
			for i, f := range frames {
				if f.H.Rsv != 0 || i == badOp {
					violation = i // refused by the header check (RSV without a negotiated extension, or §5.4)
					break
				}
			}
		}
		funcExt := rapid.IntRange(0, 2).Draw(t, "funcext") == 0
		freshReaders := rapid.IntRange(0, 3).Draw(t, "fresh-reader-per-message") == 0
		intermMode := rapid.IntRange(0, 2).Draw(t, "onintermediate-reads") // all | nothing | half
		hx.Class(fmt.Sprintf("reader/onintermediate=%s", map[bool]string{false: "nil", true: []string{"reads-all", "returns-at-once", "reads-half"}[intermMode]}[callbacks]))
		var log []seen
		newReader := func() *wsutil.Reader {
			var ext wsutil.RecvExtension = &ms
			if funcExt {
				ext = wsutil.RecvExtensionFunc(ms.UnsetBits)
			}
			rd := &wsutil.Reader{Source: src, State: state, SkipHeaderCheck: skipCheck, Extensions: []wsutil.RecvExtension{ext}}
			if callbacks {
				rd.OnContinuation = func(h ws.Header, _ io.Reader) error {
					log = append(log, seen{kind: 'c', h: h, state: ms.IsCompressed()})
					return nil
				}
				rd.OnIntermediate = func(h ws.Header, r io.Reader) error {
					// the handler may read the control payload fully, partly or not at all
					var p []byte
					var err error
					switch intermMode {
					case 0:
						p, err = io.ReadAll(r)
					case 1:
					default:
						p = make([]byte, h.Length/2)
						_, err = io.ReadFull(r, p)
					}
					log = append(log, seen{kind: 'i', h: h, state: ms.IsCompressed(), payload: p})
					return err
				}
			}
			return rd
		}
		rd := newReader()

		hx.Eval()
		switch {
		case !extended && !skipCheck && violation >= 0 && violation != badOp:
			hx.Class("reader/rsv-refused-by-header-check")
		case violation >= 0 && violation == badOp:
			hx.Class(fmt.Sprintf("reader/new-data-frame-inside-open-message/rsv1=%v", frames[badOp].H.Rsv&rsv1 != 0))
		case violation < 0:
			hx.Class("reader/all-legal")
		case ref.IsControl(frames[violation].H.Op) && ref.FragmentedBefore(frames, violation):
			hx.Class("reader/rsv1-on-intermediate-control")
		case ref.IsControl(frames[violation].H.Op):
			hx.Class("reader/rsv1-on-toplevel-control")
		default:
			hx.Class("reader/rsv1-on-continuation")
		}

		// what the application must be handed for frame f
		wantHeader := func(f ref.Frame) ref.Header {
			h := f.H
			h.Length = int64(len(f.Payload))
			h.Rsv &^= rsv1
			return h
		}
		sameHeader := func(got ws.Header, want ref.Header) bool {
			g := toRef(got)
			if !want.Masked {
				g.Mask = want.Mask
			}
			return g == want
		}
		desc := func() string {
			return fmt.Sprintf("%q server=%v extended=%v skip-header-check=%v chunks=%v", ref.Describe(frames), server, extended, skipCheck, chunks)
		}

		i := 0
		for i < len(frames) {
			f := frames[i]
			if freshReaders && i > 0 {
				rd = newReader() // as wsutil.NextReader does: one Reader per message on the same source
			}
			h, err := rd.NextFrame()
			if i == violation {
				if !isProtocolError(err) {
					t.Fatalf("frame %d (RSV1 on a top-level control frame, or RSV bits with header checks on and no Extended state): NextFrame err = %v, want a ws.ProtocolError\n%s", i, err, desc())
				}
				return
			}
			if err != nil {
				t.Fatalf("frame %d: NextFrame: %v\n%s", i, err, desc())
			}
			if !sameHeader(h, wantHeader(f)) {
				t.Fatalf("frame %d: NextFrame returned %v, want %v (RSV1 cleared, RSV2/3 untouched)\n%s", i, toRef(h), wantHeader(f), desc())
			}
			if ref.IsControl(f.H.Op) {
				p, err := io.ReadAll(rd)
				if err != nil || !bytes.Equal(p, f.Payload) {
					t.Fatalf("frame %d: control payload %x, %v; want %x\n%s", i, p, err, f.Payload, desc())
				}
				i++
				continue
			}
			// first frame of a data message
			flag := f.H.Rsv&rsv1 != 0
			if ms.IsCompressed() != flag {
				t.Fatalf("frame %d: first data frame has RSV1=%v but the message state reports compressed=%v\n%s", i, flag, ms.IsCompressed(), desc())
			}
			// the rest of the message
			end := i
			for !frames[end].H.Fin || ref.IsControl(frames[end].H.Op) {
				end++
			}
			stop := end // last frame the reader gets to process cleanly
			if violation > i && violation <= end {
				stop = violation - 1
			}
			var want []byte
			nctl := 0
			for _, g := range frames[i : stop+1] {
				if ref.IsControl(g.H.Op) {
					nctl++
				} else {
					want = append(want, g.Payload...)
				}
			}
			log = log[:0]
			var got []byte
			discard := rapid.IntRange(0, 3).Draw(t, "discard") == 0
			if discard {
				// read part of the first frame, drop the rest of the message
				if k := rapid.IntRange(0, len(f.Payload)).Draw(t, "discard.after"); k > 0 {
					buf := make([]byte, k)
					n, rerr := rd.Read(buf)
					if (rerr != nil && rerr != io.EOF) || !bytes.Equal(buf[:n], f.Payload[:n]) {
						t.Fatalf("message starting at frame %d: first Read(%d) = %x, %v\n%s", i, k, buf[:n], rerr, desc())
					}
				}
				err = rd.Discard()
				hx.Class("reader/message=discarded-part-way")
			} else {
				got, err = io.ReadAll(rd)
			}
			if callbacks {
				k := 0
				for j := i + 1; j <= stop; j++ {
					g := frames[j]
					if k >= len(log) {
						t.Fatalf("frame %d was not announced to OnContinuation/OnIntermediate\n%s", j, desc())
					}
					s := log[k]
					k++
					wantKind := byte('c')
					if ref.IsControl(g.H.Op) {
						wantKind = 'i'
					}
					if s.kind != wantKind || !sameHeader(s.h, wantHeader(g)) {
						t.Fatalf("frame %d: callback %c got header %v, want %c %v\n%s", j, s.kind, toRef(s.h), wantKind, wantHeader(g), desc())
					}
					if s.state != flag {
						t.Fatalf("frame %d (%c): message state reports compressed=%v inside a message whose first frame had RSV1=%v\n%s", j, s.kind, s.state, flag, desc())
					}
					if s.kind == 'i' {
						wantP := g.Payload
						switch intermMode {
						case 1:
							wantP = nil
						case 2:
							wantP = g.Payload[:len(g.Payload)/2]
						}
						if !bytes.Equal(s.payload, wantP) {
							t.Fatalf("frame %d: intermediate control payload seen by the handler %x, want %x", j, s.payload, wantP)
						}
					}
				}
				if k != len(log) {
					t.Fatalf("%d extra callback invocations after frame %d\n%s", len(log)-k, stop, desc())
				}
			}
			if stop != end {
				if !isProtocolError(err) {
					t.Fatalf("frame %d (%s with RSV1 inside a message): Read/Discard err = %v, want a ws.ProtocolError\n%s", violation, ref.Describe(frames[violation : violation+1])[0], err, desc())
				}
				if violation == badOp && ms.IsCompressed() != flag {
					t.Fatalf("frame %d (a %s frame while the message begun at frame %d is still open): the message state flipped to compressed=%v\n%s", violation, ref.Describe(frames[violation : violation+1])[0], i, ms.IsCompressed(), desc())
				}
				if !discard && !bytes.HasPrefix(want, got) {
					t.Fatalf("bytes delivered before the protocol error are not a prefix of the message\n%s", desc())
				}
				return
			}
			if err != nil {
				t.Fatalf("message starting at frame %d: Read/Discard: %v\n%s", i, err, desc())
			}
			if !discard && !bytes.Equal(got, want) {
				t.Fatalf("message starting at frame %d: %d bytes delivered, want %d\n%s", i, len(got), len(want), desc())
			}
			if ms.IsCompressed() != flag {
				t.Fatalf("message starting at frame %d: state reports compressed=%v after the message, first frame had RSV1=%v\n%s", i, ms.IsCompressed(), flag, desc())
			}
			hx.Class(fmt.Sprintf("reader/msg/compressed=%v/fragments=%s/ctl=%v", flag, fragClass(end-i+1-nctl), nctl > 0))
			if flag && end-i+1-nctl >= 2 && nctl > 0 {
				hx.NonTrivial(hx.Hash("reader", rsvShape(frames), server, gen.ChunkClass(chunks), callbacks, i), func() interface{} {
					return map[string]interface{}{"test": "reader-side", "frames": ref.Describe(frames), "server": server, "chunks": gen.ChunkClass(chunks), "message_at": i}
				})
			}
			i = end + 1
		}
	})
}

// ---------------------------------------------------------------------------
// end to end: payload -> wsflate.Writer -> client wsutil.Writer -> wire ->
// server wsutil.Reader (+MessageState) -> wsflate.Reader

type sm uint64

func (s *sm) next() uint64 {
	*s += 0x9e3779b97f4a7c15
	z := uint64(*s)
	z = (z ^ (z >> 30)) * 0xbf58476d1ce4e5b9
	z = (z ^ (z >> 27)) * 0x94d049bb133111eb
	return z ^ (z >> 31)
}

var words = []string{"the", "of", "websocket", "frame", "compress", "a", "to", "message", "deflate", "é", "漢字", "😀", "42", "{\"id\":", "}", ",", "\n", "hello"}

func genMessagePayload(t *rapid.T, text bool) ([]byte, string) {
	kind := rapid.IntRange(0, 9).Draw(t, "payload.kind")
	seed := sm(rapid.Uint64().Draw(t, "payload.seed"))
	var n int
	class := "small"
	switch {
	case kind == 0:
		return nil, "empty"
	case kind == 9 && rapid.IntRange(0, 2).Draw(t, "payload.big?") == 0:
		n = rapid.IntRange(33000, 90000).Draw(t, "payload.bign")
		class = "big"
	case kind >= 6:
		n = rapid.IntRange(200, 3000).Draw(t, "payload.n")
		class = "medium"
	default:
		n = rapid.IntRange(1, 200).Draw(t, "payload.n")
	}
	compressible := text || rapid.Bool().Draw(t, "payload.compressible")
	p := make([]byte, 0, n+8)
	for len(p) < n {
		if compressible {
			p = append(p, words[seed.next()%uint64(len(words))]...)
			p = append(p, ' ')
		} else {
			v := seed.next()
			for j := 0; j < 8; j++ {
				p = append(p, byte(v>>(8*uint(j))))
			}
		}
	}
	p = p[:n]
	if text {
		// keep it valid UTF-8: cut back to a rune boundary
		for len(p) > 0 && p[len(p)-1]&0xC0 == 0x80 {
			p = p[:len(p)-1]
		}
		if len(p) > 0 && p[len(p)-1] >= 0xC0 {
			p = p[:len(p)-1]
		}
	}
	return p, class
}

type e2eMsg struct {
	Op         ws.OpCode
	Compressed bool
	Payload    []byte
	Class      string
	Level      int
	Ending     string
}

func flateCtor(level int) func(io.Writer) wsflate.Compressor {
	return func(w io.Writer) wsflate.Compressor {
		f, err := flate.NewWriter(w, level)
		if err != nil {
			panic(err)
		}
		return f
	}
}

func flateDtor(r io.Reader) wsflate.Decompressor { return flate.NewReader(r) }

var levels = []int{9, -1, 1, 0, -2, 6, 3}

func TestEndToEnd(t *testing.T) {
	hx.Check(t, 20, func(t *rapid.T) {
		rand.Seed(rapid.Int64().Draw(t, "randseed"))
		nmsg := rapid.IntRange(1, 4).Draw(t, "msgs")
		bufSize := rapid.SampledFrom([]int{1, 2, 3, 7, 16, 50, 125, 126, 300, 0}).Draw(t, "bufsize")
		reuse := rapid.Bool().Draw(t, "reuse-flate")
		wstate := ws.StateClientSide | ws.StateExtended
		rstate := ws.StateServerSide | ws.StateExtended

		// ---- sending side
		rec := tx.NewRec()
		var msW wsflate.MessageState
		var wr *wsutil.Writer
		wctor := rapid.SampledFrom([]int{0, 0, 1, 2, 3}).Draw(t, "writer-ctor")
		switch wctor {
		case 0:
			wr = wsutil.NewWriterSize(rec, wstate, ws.OpBinary, bufSize)
		case 1:
			wr = wsutil.NewWriter(rec, wstate, ws.OpBinary)
		case 2:
			wr = wsutil.GetWriter(rec, wstate, ws.OpBinary, bufSize+14)
			defer wsutil.PutWriter(wr)
		default: // recycled with Reset: extensions are attached again afterwards
			wr = wsutil.NewWriterBufferSize(tx.NewRec(), ws.StateServerSide, ws.OpText, bufSize+14)
			wr.Write([]byte("previous owner"))
			wr.Reset(rec, wstate, ws.OpBinary)
		}
		funcExt := rapid.IntRange(0, 2).Draw(t, "funcext") == 0
		if funcExt {
			wr.SetExtensions(wsutil.SendExtensionFunc(msW.SetBits))
		} else {
			wr.SetExtensions(&msW)
		}
		hx.Class(fmt.Sprintf("e2e/writer-ctor=%d/funcext=%v", wctor, funcExt))
		var fw *wsflate.Writer
		var msgs []e2eMsg
		var ctlSent [][]byte
		sendCtl := func() {
			p := gen.Filled(rapid.IntRange(0, 20).Draw(t, "ctl.len"), byte(len(ctlSent)))
			op := rapid.SampledFrom([]ws.OpCode{ws.OpPing, ws.OpPong}).Draw(t, "ctl.op")
			if err := wsutil.WriteMessage(rec, wstate, op, p); err != nil {
				t.Fatalf("WriteMessage: %v", err)
			}
			ctlSent = append(ctlSent, append([]byte{byte(op)}, p...))
		}
		curOp := ws.OpBinary // opcode the writer was built with
		for m := 0; m < nmsg; m++ {
			msg := e2eMsg{Op: rapid.SampledFrom([]ws.OpCode{ws.OpText, ws.OpBinary}).Draw(t, "op"),
				Compressed: rapid.IntRange(0, 2).Draw(t, "compressed") != 0,
				Level:      rapid.SampledFrom(levels).Draw(t, "level")}
			if rapid.Bool().Draw(t, "keep-writer-op") {
				msg.Op = curOp // next message on the same writer without ResetOp
				if m > 0 {
					hx.Class("e2e/next-message=same-writer-no-ResetOp")
				}
			} else {
				wr.ResetOp(msg.Op)
				curOp = msg.Op
			}
			msg.Payload, msg.Class = genMessagePayload(t, msg.Op == ws.OpText)
			if msg.Class == "big" && bufSize != 0 && bufSize < 50 {
				msg.Payload = msg.Payload[:len(msg.Payload)/16] // keep the frame count reasonable
				msg.Class = "medium"
			}
			if !msg.Compressed && len(msg.Payload) == 0 {
				msg.Payload = []byte("x") // whether an empty plain write makes a message is C06's open question
			}
			msW.SetCompressed(msg.Compressed)
			var dst io.Writer = wr
			if msg.Compressed {
				if fw == nil || !reuse {
					fw = wsflate.NewWriter(wr, flateCtor(msg.Level))
				} else {
					fw.Reset(wr)
				}
				dst = fw
			}
			for _, piece := range gen.Split(t, "split", msg.Payload, 4) {
				var n int
				var err error
				if !msg.Compressed && rapid.IntRange(0, 2).Draw(t, "readfrom") == 0 {
					var n64 int64
					n64, err = wr.ReadFrom(tx.NewSrc(piece, gen.Chunks(t, "readfrom.chunks")))
					n = int(n64)
				} else {
					n, err = dst.Write(piece)
				}
				if err != nil || n != len(piece) {
					t.Fatalf("message %d: Write/ReadFrom(%d) = %d, %v", m, len(piece), n, err)
				}
				if msg.Compressed && rapid.IntRange(0, 2).Draw(t, "between.flate-flush") == 0 {
					if err := fw.Flush(); err != nil {
						t.Fatalf("message %d: wsflate Flush: %v", m, err)
					}
				}
				if rapid.IntRange(0, 2).Draw(t, "between.fragment") == 0 {
					if err := wr.FlushFragment(); err != nil {
						t.Fatalf("message %d: FlushFragment: %v", m, err)
					}
				}
				if rapid.IntRange(0, 2).Draw(t, "between.ctl") == 0 {
					sendCtl()
				}
			}
			if msg.Compressed {
				msg.Ending = rapid.SampledFrom([]string{"flush", "flush+close", "close"}).Draw(t, "ending")
				if msg.Ending != "close" {
					if err := fw.Flush(); err != nil {
						t.Fatalf("message %d: wsflate Flush: %v", m, err)
					}
				}
				if msg.Ending != "flush" {
					if err := fw.Close(); err != nil {
						t.Fatalf("message %d: wsflate Close: %v", m, err)
					}
				}
			}
			if err := wr.Flush(); err != nil {
				t.Fatalf("message %d: Flush: %v", m, err)
			}
			msgs = append(msgs, msg)
			if rapid.IntRange(0, 3).Draw(t, "ctl-after") == 0 {
				sendCtl()
			}
		}
		wire := rec.Bytes()

		// ---- the wire, parsed independently
		frames, rest, perr := ref.ParseFrames(wire)
		if len(rest) != 0 {
			t.Fatalf("wire does not parse: %v", perr)
		}
		if idx, broken, open := ref.Validate(frames, ref.SideServer, true); idx >= 0 || open {
			t.Fatalf("wire is not a valid client-to-server conversation: frame %d breaks %v (open message at end: %v)\n%q", idx, broken, open, ref.Describe(frames))
		}
		type wireCtl struct {
			intermediate bool
			b            []byte
		}
		var ctlWire []wireCtl
		mi, inMsg := 0, false
		nontrivial := false
		frag, ictl := 0, 0
		for i, f := range frames {
			switch {
			case ref.IsControl(f.H.Op):
				if f.H.Rsv != 0 {
					t.Fatalf("wire frame %d: control frame with rsv=%d", i, f.H.Rsv)
				}
				if inMsg {
					ictl++
				}
				ctlWire = append(ctlWire, wireCtl{inMsg, append([]byte{f.H.Op}, f.Payload...)})
			case !inMsg:
				if mi >= len(msgs) {
					t.Fatalf("wire has more messages than were sent")
				}
				want := byte(0)
				if msgs[mi].Compressed {
					want = rsv1
				}
				if f.H.Rsv != want || f.H.Op != byte(msgs[mi].Op) {
					t.Fatalf("wire frame %d: first frame of message %d (compressed=%v, op=%#x) has rsv=%d op=%#x", i, mi, msgs[mi].Compressed, byte(msgs[mi].Op), f.H.Rsv, f.H.Op)
				}
				inMsg, frag, ictl = true, 1, 0
			default:
				if f.H.Rsv != 0 {
					t.Fatalf("wire frame %d: continuation frame of message %d (compressed=%v) has rsv=%d", i, mi, msgs[mi].Compressed, f.H.Rsv)
				}
				frag++
			}
			if inMsg && !ref.IsControl(f.H.Op) && f.H.Fin {
				if msgs[mi].Compressed && frag >= 2 && ictl > 0 {
					nontrivial = true
				}
				hx.Class(fmt.Sprintf("e2e/msg/compressed=%v/%s/fragments=%s/ctl=%v", msgs[mi].Compressed, msgs[mi].Class, fragClass(frag), ictl > 0))
				inMsg = false
				mi++
			}
		}
		if mi != len(msgs) {
			t.Fatalf("wire carries %d messages, %d were sent", mi, len(msgs))
		}

		// ---- receiving side
		chunks := gen.Chunks(t, "chunks")
		src := tx.NewSrc(wire, chunks)
		src.EOFWithData = rapid.Bool().Draw(t, "eofwithdata")
		var msR wsflate.MessageState
		var ctlGot [][]byte
		freshReaders := rapid.IntRange(0, 3).Draw(t, "fresh-reader-per-message") == 0
		intermMode := rapid.IntRange(0, 3).Draw(t, "onintermediate") // nil | reads all | returns at once | reads half
		hx.Class(fmt.Sprintf("e2e/onintermediate=%d", intermMode))
		newReader := func() *wsutil.Reader {
			var ext wsutil.RecvExtension = &msR
			if funcExt {
				ext = wsutil.RecvExtensionFunc(msR.UnsetBits)
			}
			rd := &wsutil.Reader{Source: src, State: rstate, Extensions: []wsutil.RecvExtension{ext}}
			switch intermMode {
			case 0: // no handler: intermediate control frames are dropped by the reader
			default:
				rd.OnIntermediate = func(h ws.Header, r io.Reader) error {
					var p []byte
					var err error
					switch intermMode {
					case 1:
						p, err = io.ReadAll(r)
					case 2: // returns at once
					default:
						p = make([]byte, h.Length/2)
						_, err = io.ReadFull(r, p)
					}
					ctlGot = append(ctlGot, append([]byte{byte(h.OpCode)}, p...))
					return err
				}
			}
			return rd
		}
		rd := newReader()
		var fr *wsflate.Reader
		readBuf := make([]byte, rapid.SampledFrom([]int{1, 3, 64, 512, 4096}).Draw(t, "readbuf"))
		hx.Eval()
		for m := 0; m < len(msgs); {
			if freshReaders {
				rd = newReader() // one Reader per top-level frame, as wsutil.NextReader does
			}
			h, err := rd.NextFrame()
			if err != nil {
				t.Fatalf("receiving message %d: NextFrame: %v", m, err)
			}
			if h.OpCode.IsControl() {
				p, err := io.ReadAll(rd)
				if err != nil {
					t.Fatalf("control payload: %v", err)
				}
				ctlGot = append(ctlGot, append([]byte{byte(h.OpCode)}, p...))
				continue
			}
			msg := msgs[m]
			if h.OpCode != msg.Op || h.Rsv != 0 {
				t.Fatalf("message %d: NextFrame header op=%#x rsv=%d, sent op=%#x (RSV1 must be cleared)", m, byte(h.OpCode), h.Rsv, byte(msg.Op))
			}
			if msR.IsCompressed() != msg.Compressed {
				t.Fatalf("message %d: receiver state compressed=%v, sent compressed=%v", m, msR.IsCompressed(), msg.Compressed)
			}
			var in io.Reader = rd
			if msg.Compressed {
				if fr == nil || !reuse {
					fr = wsflate.NewReader(rd, flateDtor)
				} else {
					fr.Reset(rd)
				}
				in = fr
			}
			if rapid.IntRange(0, 4).Draw(t, "discard") == 0 {
				// the application loses interest: maybe one read, then the rest of the message is dropped;
				// the following message must come out right (payload and compressed flag)
				if rapid.Bool().Draw(t, "discard.read-first") {
					if _, err := in.Read(readBuf); err != nil && err != io.EOF {
						t.Fatalf("message %d: first read: %v", m, err)
					}
				}
				if err := rd.Discard(); err != nil {
					t.Fatalf("message %d (compressed=%v, %d bytes): Discard: %v", m, msg.Compressed, len(msg.Payload), err)
				}
				hx.Class(fmt.Sprintf("e2e/message=discarded/compressed=%v", msg.Compressed))
				m++
				continue
			}
			var got []byte
			for k := 0; ; k++ {
				n, err := in.Read(readBuf)
				got = append(got, readBuf[:n]...)
				if err == io.EOF {
					break
				}
				if err != nil {
					t.Fatalf("message %d (compressed=%v, %s, %d bytes, level %d, ending %q, writer buffer %d): read failed after %d bytes: %v",
						m, msg.Compressed, msg.Class, len(msg.Payload), msg.Level, msg.Ending, bufSize, len(got), err)
				}
				if k > 5000000 {
					t.Fatalf("message %d: reader does not terminate", m)
				}
			}
			if !bytes.Equal(got, msg.Payload) {
				t.Fatalf("message %d (compressed=%v, %s, level %d, ending %q, writer buffer %d): received %d bytes, sent %d; differ",
					m, msg.Compressed, msg.Class, msg.Level, msg.Ending, bufSize, len(got), len(msg.Payload))
			}
			m++
		}
		// trailing control frames, then a clean end of stream
		for {
			h, err := rd.NextFrame()
			if err == io.EOF {
				break
			}
			if err != nil || !h.OpCode.IsControl() {
				t.Fatalf("after the last message: NextFrame = %v, %v", toRef(h), err)
			}
			p, _ := io.ReadAll(rd)
			ctlGot = append(ctlGot, append([]byte{byte(h.OpCode)}, p...))
		}
		if len(ctlWire) != len(ctlSent) {
			t.Fatalf("%d control frames on the wire, %d sent", len(ctlWire), len(ctlSent))
		}
		var ctlWant [][]byte
		for i, c := range ctlWire {
			if !bytes.Equal(c.b, ctlSent[i]) {
				t.Fatalf("control frame %d on the wire differs: %x, sent %x", i, c.b, ctlSent[i])
			}
			switch {
			case !c.intermediate || intermMode == 1:
				ctlWant = append(ctlWant, c.b)
			case intermMode == 0: // dropped by the reader
			case intermMode == 2:
				ctlWant = append(ctlWant, c.b[:1])
			default:
				ctlWant = append(ctlWant, c.b[:1+(len(c.b)-1)/2])
			}
		}
		if len(ctlGot) != len(ctlWant) {
			t.Fatalf("%d control frames handed to the application, want %d (OnIntermediate mode %d)", len(ctlGot), len(ctlWant), intermMode)
		}
		for i := range ctlGot {
			if !bytes.Equal(ctlGot[i], ctlWant[i]) {
				t.Fatalf("control frame %d differs: got %x want %x (OnIntermediate mode %d)", i, ctlGot[i], ctlWant[i], intermMode)
			}
		}
		if nontrivial {
			hx.NonTrivial(hx.Hash("e2e", ref.Shape(frames), bufSize, gen.ChunkClass(chunks), reuse), func() interface{} {
				var ms []string
				for _, m := range msgs {
					ms = append(ms, fmt.Sprintf("op=%#x compressed=%v %s len=%d level=%d ending=%s", byte(m.Op), m.Compressed, m.Class, len(m.Payload), m.Level, m.Ending))
				}
				shape := ref.Shape(frames)
				if len(shape) > 120 {
					shape = shape[:120] + "…"
				}
				return map[string]interface{}{"test": "end-to-end", "messages": ms, "writer_buffer": bufSize, "wire_shape": shape, "chunks": gen.ChunkClass(chunks)}
			})
		}
	})
}
