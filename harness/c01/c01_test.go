// C01 — frame header codec is byte-exact per RFC 6455 §5.2 and its own inverse.
package c01

import (
	"bufio"
	"bytes"
	"fmt"
	"io"
	"testing"

	"github.com/gobwas/ws"
	"github.com/gobwas/ws/wsutil"
	"pgregory.net/rapid"

	"verif/harness/gen"
	"verif/harness/hx"
	"verif/harness/ref"
	"verif/harness/tx"
)

func TestMain(m *testing.M) { hx.Main(m, "C01") }

var sentinel = []byte{0xA5, 0x5A, 0xC3}

func toRef(h ws.Header) ref.Header {
	return ref.Header{Fin: h.Fin, Rsv: h.Rsv, Op: byte(h.OpCode), Masked: h.Masked, Mask: h.Mask, Length: h.Length}
}

func toWS(h ref.Header) ws.Header {
	return ws.Header{Fin: h.Fin, Rsv: h.Rsv, OpCode: ws.OpCode(h.Op), Masked: h.Masked, Mask: h.Mask, Length: h.Length}
}

// sameHeader compares decoded fields; the key only when the header is masked.
func sameHeader(a, b ref.Header) bool {
	if a.Fin != b.Fin || a.Rsv != b.Rsv || a.Op != b.Op || a.Masked != b.Masked || a.Length != b.Length {
		return false
	}
	return !a.Masked || a.Mask == b.Mask
}

type decoded struct {
	err      error
	h        ref.Header
	consumed int
}

// eofWithData makes the sources of decodeLow/decodeStream hand over their last
// bytes together with io.EOF (which io.Reader allows); checkDecode runs every
// case both ways.
var eofWithData bool

// decodeLow runs ws.ReadHeader over b served with the chunk plan.
func decodeLow(b []byte, sizes []int) decoded {
	src := tx.NewSrc(b, sizes)
	src.EOFWithData = eofWithData
	h, err := ws.ReadHeader(src)
	return decoded{err, toRef(h), src.Pos}
}

// decodeStream runs the decoder inside a fresh wsutil.Reader.
func decodeStream(b []byte, sizes []int) decoded {
	src := tx.NewSrc(b, sizes)
	src.EOFWithData = eofWithData
	rd := &wsutil.Reader{Source: src, SkipHeaderCheck: true}
	h, err := rd.NextFrame()
	return decoded{err, toRef(h), src.Pos}
}

type caseDesc struct {
	Bytes  string `json:"bytes_hex"`
	Chunks []int  `json:"chunks,omitempty"`
	Ref    string `json:"ref"`
}

// checkDecode is the decode-direction oracle. It returns a description of
// the violation or "". Every case is run with the end of stream reported in a
// separate read and together with the last bytes.
func checkDecode(b []byte, sizes []int) string {
	defer func() { eofWithData = false }()
	for _, e := range []bool{false, true} {
		eofWithData = e
		if msg := checkDecodeOnce(b, sizes); msg != "" {
			if e {
				msg += " (source returns its last bytes together with io.EOF)"
			}
			return msg
		}
	}
	return ""
}

func checkDecodeOnce(b []byte, sizes []int) string {
	v, want, n := ref.DecodeHeader(b)
	lo := decodeLow(b, sizes)
	st := decodeStream(b, sizes)
	names := [2]string{"ws.ReadHeader", "wsutil.Reader.NextFrame"}
	for i, d := range [2]decoded{lo, st} {
		switch v {
		case ref.Incomplete, ref.MSB:
			if d.err == nil {
				return fmt.Sprintf("%s accepted a header the reference calls %v: got %v", names[i], v, d.h)
			}
		case ref.OK:
			if d.err != nil {
				return fmt.Sprintf("%s failed (%v) on a complete minimal header %v", names[i], d.err, want)
			}
			if !sameHeader(d.h, want) {
				return fmt.Sprintf("%s decoded %v, reference %v", names[i], d.h, want)
			}
			if d.consumed != n {
				return fmt.Sprintf("%s consumed %d bytes, header is %d bytes", names[i], d.consumed, n)
			}
		case ref.NonMinimal:
			if d.err == nil {
				if !sameHeader(d.h, want) {
					return fmt.Sprintf("%s decoded non-minimal header as %v, layout says %v", names[i], d.h, want)
				}
				if d.consumed != n {
					return fmt.Sprintf("%s consumed %d bytes, header is %d bytes", names[i], d.consumed, n)
				}
			}
		}
	}
	if (lo.err == nil) != (st.err == nil) {
		return fmt.Sprintf("decoders disagree: ReadHeader err=%v, Reader.NextFrame err=%v", lo.err, st.err)
	}
	if lo.err == nil && (!sameHeader(lo.h, st.h) || lo.consumed != st.consumed) {
		return fmt.Sprintf("decoders disagree: ReadHeader %v/%d bytes, Reader.NextFrame %v/%d bytes", lo.h, lo.consumed, st.h, st.consumed)
	}
	return ""
}

// checkEncode is the encode-direction oracle.
func checkEncode(h ref.Header) string {
	want := ref.EncodeHeader(h)
	wh := toWS(h)
	var buf bytes.Buffer
	if err := ws.WriteHeader(&buf, wh); err != nil {
		return fmt.Sprintf("WriteHeader(%v) failed: %v", h, err)
	}
	if !bytes.Equal(buf.Bytes(), want) {
		return fmt.Sprintf("WriteHeader(%v) = %x, RFC layout is %x", h, buf.Bytes(), want)
	}
	if n := ws.HeaderSize(wh); n != len(want) {
		return fmt.Sprintf("HeaderSize(%v) = %d, encoded size is %d", h, n, len(want))
	}
	// the same header through destinations a caller is likely to pass: a bufio.Writer that has already
	// carried other bytes (its internal buffer is dirty), one with little room left, and the harness recorder
	// (which sees the individual Write calls)
	var under bytes.Buffer
	bw := bufio.NewWriterSize(&under, 64)
	bw.Write(bytes.Repeat([]byte{0xff}, 64))
	bw.Flush()
	under.Reset()
	bw.Write([]byte{0xee, 0xee, 0xee})
	if err := ws.WriteHeader(bw, wh); err != nil {
		return fmt.Sprintf("WriteHeader(%v) into a used bufio.Writer failed: %v", h, err)
	}
	bw.Flush()
	if got := under.Bytes(); len(got) < 3 || !bytes.Equal(got[3:], want) {
		return fmt.Sprintf("WriteHeader(%v) into a bufio.Writer that carried other bytes before = %x, RFC layout is %x", h, got, want)
	}
	under.Reset()
	bw.Write(bytes.Repeat([]byte{0xdd}, 58)) // 6 bytes of room: most headers do not fit
	if err := ws.WriteHeader(bw, wh); err != nil {
		return fmt.Sprintf("WriteHeader(%v) into a nearly full bufio.Writer failed: %v", h, err)
	}
	bw.Flush()
	if got := under.Bytes(); len(got) < 58 || !bytes.Equal(got[58:], want) {
		return fmt.Sprintf("WriteHeader(%v) into a nearly full bufio.Writer = …%x, RFC layout is %x", h, got[min(58, len(got)):], want)
	}
	rec := tx.NewRec()
	if err := ws.WriteHeader(rec, wh); err != nil || !bytes.Equal(rec.Bytes(), want) {
		return fmt.Sprintf("WriteHeader(%v) into a plain writer: err=%v bytes=%x, RFC layout is %x", h, err, rec.Bytes(), want)
	}
	// a header-only frame (the payload travels separately, as in the library's own benchmarks): compile and
	// write are the header codec followed by the payload handed over - here none, whatever length is announced
	if msg := func() (msg string) {
		defer func() {
			if p := recover(); p != nil {
				msg = fmt.Sprintf("CompileFrame / WriteFrame of the header-only frame %v panicked: %v", h, p)
			}
		}()
		cf, err := ws.CompileFrame(ws.Frame{Header: wh})
		if err != nil || !bytes.Equal(cf, want) {
			return fmt.Sprintf("CompileFrame of the header-only frame %v: err=%v bytes=%x, RFC layout of the header is %x", h, err, cf, want)
		}
		rec := tx.NewRec()
		if err := ws.WriteFrame(rec, ws.Frame{Header: wh}); err != nil || !bytes.Equal(rec.Bytes(), want) {
			return fmt.Sprintf("WriteFrame of the header-only frame %v: err=%v bytes=%x, RFC layout of the header is %x", h, err, rec.Bytes(), want)
		}
		return ""
	}(); msg != "" {
		return msg
	}
	stream := append(append([]byte(nil), want...), sentinel...)
	for _, sizes := range [][]int{nil, {1}} {
		for i, dec := range []func([]byte, []int) decoded{decodeLow, decodeStream} {
			d := dec(stream, sizes)
			if d.err != nil {
				return fmt.Sprintf("decoder %d failed on its own encoding of %v: %v", i, h, d.err)
			}
			if !sameHeader(d.h, h) {
				return fmt.Sprintf("decoder %d: round trip of %v gave %v", i, h, d.h)
			}
			if d.consumed != len(want) {
				return fmt.Sprintf("decoder %d consumed %d bytes of a %d-byte header (payload touched)", i, d.consumed, len(want))
			}
		}
	}
	return ""
}

func noteHeader(h ref.Header, dir string) {
	form := ref.LengthForm(h.Length)
	if form != 0 || h.Masked {
		b0 := ref.EncodeHeader(h)[0]
		hx.NonTrivial(hx.Hash(dir, b0, h.Masked, form, h.Length), func() interface{} {
			return map[string]interface{}{"dir": dir, "header": h.String(), "wire": fmt.Sprintf("%x", ref.EncodeHeader(h))}
		})
	}
}

// All 2·8·16·2 flag/opcode combinations against every boundary length.
func TestEncodeExhaustiveFlags(t *testing.T) {
	n := 0
	for _, fin := range []bool{false, true} {
		for rsv := byte(0); rsv < 8; rsv++ {
			for op := byte(0); op < 16; op++ {
				for _, masked := range []bool{false, true} {
					for _, l := range gen.LenBoundaries {
						h := ref.Header{Fin: fin, Rsv: rsv, Op: op, Masked: masked, Length: l}
						if masked {
							h.Mask = [4]byte{byte(n), byte(n >> 8), 0x80, 0xff}
						}
						n++
						hx.Eval()
						noteHeader(h, "enc")
						if msg := checkEncode(h); msg != "" {
							hx.Failf(t, h.String(), "%s", msg)
							return
						}
					}
				}
			}
		}
	}
	hx.Part("encode: fin x rsv x opcode x masked x boundary lengths", int64(n), true)
}

func TestEncodeRandom(t *testing.T) {
	hx.Check(t, 20, func(t *rapid.T) {
		h := ref.Header{
			Fin:    rapid.Bool().Draw(t, "fin"),
			Rsv:    byte(rapid.IntRange(0, 7).Draw(t, "rsv")),
			Op:     byte(rapid.IntRange(0, 15).Draw(t, "op")),
			Masked: rapid.Bool().Draw(t, "masked"),
			Length: gen.Length(t, "len"),
		}
		if h.Masked {
			h.Mask = gen.Key(t, "key")
		}
		hx.Eval()
		hx.Class(fmt.Sprintf("enc/form%d/masked=%v", ref.LengthForm(h.Length), h.Masked))
		noteHeader(h, "enc")
		if msg := checkEncode(h); msg != "" {
			t.Fatalf("%s", msg)
		}
	})
}

// Every value of the first two bytes, followed by a fixed tail, and by every
// truncation of the tail the header needs.
func TestDecodeAllTwoBytePrefixes(t *testing.T) {
	tails := [][]byte{
		{0x01, 0x02, 0x03, 0x04, 0x05, 0x06, 0x07, 0x08, 0x09, 0x0a, 0x0b, 0x0c, 0x0d},
		{0x00, 0x00, 0x00, 0x00, 0x00, 0x01, 0x00, 0x00, 0x09, 0x0a, 0x0b, 0x0c, 0x0d}, // 64-bit form: 65536 (minimal); 16-bit form: 0 (non-minimal)
		{0x80, 0x00, 0x00, 0x00, 0x00, 0x00, 0x00, 0x00, 0x09, 0x0a, 0x0b, 0x0c, 0x0d}, // top bit set in the 64-bit form
		{0x7f, 0xff, 0xff, 0xff, 0xff, 0xff, 0xff, 0xff, 0x09, 0x0a, 0x0b, 0x0c, 0x0d}, // 2^63-1
	}
	n := 0
	for p := 0; p < 65536; p++ {
		if !hx.Mine(p) {
			continue
		}
		for _, tail := range tails {
			for cut := 0; cut <= len(tail); cut++ {
				b := append([]byte{byte(p >> 8), byte(p)}, tail[:cut]...)
				n++
				v, h, _ := ref.DecodeHeader(b)
				if v == ref.OK {
					noteHeader(h, "dec")
				}
				for _, sizes := range [][]int{nil, {1}} {
					if msg := checkDecode(b, sizes); msg != "" {
						hx.Failf(t, caseDesc{fmt.Sprintf("%x", b), sizes, v.String()}, "%s", msg)
						return
					}
				}
			}
		}
	}
	hx.EvalN(n)
	hx.Part("decode: all 65536 two-byte prefixes x 4 tails x every truncation", int64(n), true)
}

func TestDecodeRandom(t *testing.T) {
	hx.Check(t, 20, func(t *rapid.T) {
		var b []byte
		kind := rapid.IntRange(0, 3).Draw(t, "kind")
		switch kind {
		case 0: // arbitrary bytes
			b = rapid.SliceOfN(rapid.Byte(), 0, 16).Draw(t, "bytes")
		case 1: // valid encoding, truncated anywhere, plus arbitrary tail
			h := ref.Header{
				Fin: rapid.Bool().Draw(t, "fin"), Rsv: byte(rapid.IntRange(0, 7).Draw(t, "rsv")),
				Op: byte(rapid.IntRange(0, 15).Draw(t, "op")), Masked: rapid.Bool().Draw(t, "masked"),
				Length: gen.Length(t, "len"),
			}
			if h.Masked {
				h.Mask = gen.Key(t, "key")
			}
			e := ref.EncodeHeader(h)
			cut := rapid.IntRange(0, len(e)).Draw(t, "cut")
			b = e[:cut]
			if cut == len(e) {
				b = append(b, rapid.SliceOfN(rapid.Byte(), 0, 4).Draw(t, "tail")...)
			}
		case 2: // 64-bit form with chosen top bits
			b = []byte{rapid.Byte().Draw(t, "b0"), 127 | byte(rapid.IntRange(0, 1).Draw(t, "m"))<<7}
			b = append(b, rapid.SampledFrom([]byte{0x00, 0x7f, 0x80, 0xff}).Draw(t, "hi"))
			b = append(b, rapid.SliceOfN(rapid.Byte(), 0, 12).Draw(t, "rest")...)
		case 3: // non-minimal 16- or 64-bit forms
			b = []byte{rapid.Byte().Draw(t, "b0")}
			m := byte(rapid.IntRange(0, 1).Draw(t, "m")) << 7
			if rapid.Bool().Draw(t, "form16") {
				v := rapid.IntRange(0, 130).Draw(t, "v")
				b = append(b, m|126, byte(v>>8), byte(v))
			} else {
				v := rapid.IntRange(0, 70000).Draw(t, "v")
				b = append(b, m|127, 0, 0, 0, 0, 0, byte(v>>16), byte(v>>8), byte(v))
			}
			b = append(b, rapid.SliceOfN(rapid.Byte(), 0, 6).Draw(t, "rest")...)
		}
		sizes := gen.Chunks(t, "chunks")
		v, h, _ := ref.DecodeHeader(b)
		hx.Eval()
		hx.Class(fmt.Sprintf("dec/kind%d/%v", kind, v))
		if v == ref.OK {
			noteHeader(h, "dec")
		}
		if msg := checkDecode(b, sizes); msg != "" {
			t.Fatalf("%s\nbytes=%x chunks=%v ref=%v", msg, b, sizes, v)
		}
	})
}

var payloadSizes = []int{0, 1, 124, 125, 126, 127, 128, 65534, 65535, 65536, 65537}

// Whole frames: write/compile = header ++ payload; read = header codec ++ exactly Length bytes.
func TestWholeFrames(t *testing.T) {
	hx.Check(t, 2, func(t *rapid.T) {
		var n int
		if rapid.Bool().Draw(t, "boundary") {
			n = rapid.SampledFrom(payloadSizes).Draw(t, "n")
		} else {
			n = rapid.IntRange(0, 70000).Draw(t, "n")
		}
		payload := gen.Filled(n, rapid.Byte().Draw(t, "fill"))
		h := ref.Header{
			Fin: rapid.Bool().Draw(t, "fin"), Rsv: byte(rapid.IntRange(0, 7).Draw(t, "rsv")),
			Op: byte(rapid.IntRange(0, 15).Draw(t, "op")), Masked: rapid.Bool().Draw(t, "masked"),
			Length: int64(n),
		}
		if h.Masked {
			h.Mask = gen.Key(t, "key")
		}
		sizes := gen.Chunks(t, "chunks")
		hx.Eval()
		hx.Class(fmt.Sprintf("frame/form%d/masked=%v", ref.LengthForm(h.Length), h.Masked))
		noteHeader(h, "frame")

		want := append(ref.EncodeHeader(h), payload...)
		f := ws.Frame{Header: toWS(h), Payload: payload}
		rec := tx.NewRec()
		if err := ws.WriteFrame(rec, f); err != nil {
			t.Fatalf("WriteFrame: %v", err)
		}
		if !bytes.Equal(rec.Bytes(), want) {
			t.Fatalf("WriteFrame bytes differ from header++payload (got %d bytes, want %d; header %v)", rec.Len(), len(want), h)
		}
		c, err := ws.CompileFrame(f)
		if err != nil || !bytes.Equal(c, want) {
			t.Fatalf("CompileFrame: err=%v, %d bytes, want %d (header %v)", err, len(c), len(want), h)
		}
		src := tx.NewSrc(append(append([]byte(nil), want...), sentinel...), sizes)
		got, err := ws.ReadFrame(src)
		if err != nil {
			t.Fatalf("ReadFrame on a whole frame: %v (header %v)", err, h)
		}
		if !sameHeader(toRef(got.Header), h) || !bytes.Equal(got.Payload, payload) {
			t.Fatalf("ReadFrame returned header %v with %d payload bytes, want %v with %d", toRef(got.Header), len(got.Payload), h, n)
		}
		if !bytes.Equal(src.Remaining(), sentinel) {
			t.Fatalf("ReadFrame consumed %d bytes of a %d-byte frame", src.Pos, len(want))
		}
		// A transport hiccup inside the header (one read returns an error, the next would go on): the frame was not
		// read, ReadFrame must say so - it must not carry on with the payload as if the header had been complete.
		if hl := len(ref.EncodeHeader(h)); hl > 2 {
			at := rapid.IntRange(1, hl-1).Draw(t, "stallAt")
			st := tx.NewSrc(want, sizes)
			st.StallAt = map[int]bool{at: true}
			if fr, err := ws.ReadFrame(st); err == nil {
				t.Fatalf("ReadFrame reported success (%d payload bytes) although the read of header byte %d of %d failed (header %v)", len(fr.Payload), at, hl, h)
			}
		}
		// A destination that fails one write (the header's or the payload's) and then works again: WriteFrame
		// reports the failure; it never returns nil for a frame that did not go out whole.
		if n > 0 {
			for failAt := 0; failAt < 2; failAt++ {
				fr := tx.NewRec()
				fr.FailAt, fr.Transient = failAt, true
				err := ws.WriteFrame(fr, f)
				if err == nil && !bytes.Equal(fr.Bytes(), want) {
					t.Fatalf("WriteFrame returned nil although destination write %d failed: %d of %d bytes went out (header %v)", failAt, fr.Len(), len(want), h)
				}
			}
		}
		// A frame cut short anywhere in the payload must not be returned as whole.
		if n > 0 {
			cut := rapid.IntRange(0, n-1).Draw(t, "cut")
			short := tx.NewSrc(want[:len(want)-n+cut], sizes)
			if _, err := ws.ReadFrame(short); err == nil {
				t.Fatalf("ReadFrame succeeded with %d of %d payload bytes", cut, n)
			}
		}
	})
}

// ReadFrame over arbitrary bytes: header per the RFC layout, then exactly Length bytes.
func TestReadFrameArbitrary(t *testing.T) {
	hx.Check(t, 10, func(t *rapid.T) {
		b0 := rapid.Byte().Draw(t, "b0")
		masked := rapid.Bool().Draw(t, "masked")
		n := rapid.IntRange(0, 300).Draw(t, "announced")
		h := ref.Header{Fin: b0&0x80 != 0, Rsv: (b0 >> 4) & 7, Op: b0 & 15, Masked: masked, Length: int64(n)}
		if masked {
			h.Mask = gen.Key(t, "key")
		}
		have := rapid.IntRange(0, n+5).Draw(t, "present")
		rest := gen.Filled(have, 7)
		b := append(ref.EncodeHeader(h), rest...)
		sizes := gen.Chunks(t, "chunks")
		hx.Eval()
		hx.Class(fmt.Sprintf("readframe/short=%v", have < n))
		noteHeader(h, "readframe")
		src := tx.NewSrc(b, sizes)
		f, err := ws.ReadFrame(src)
		if have < n {
			if err == nil {
				t.Fatalf("ReadFrame succeeded with %d of %d announced bytes", have, n)
			}
			if err == io.EOF && have > 0 {
				t.Fatalf("ReadFrame reported clean EOF after a partial payload (%d of %d)", have, n)
			}
			return
		}
		if err != nil {
			t.Fatalf("ReadFrame: %v", err)
		}
		if !sameHeader(toRef(f.Header), h) || !bytes.Equal(f.Payload, rest[:n]) {
			t.Fatalf("ReadFrame payload/header mismatch: %v, %d bytes", toRef(f.Header), len(f.Payload))
		}
		if src.Pos != ref.HeaderLen(h)+n {
			t.Fatalf("ReadFrame consumed %d, frame is %d bytes", src.Pos, ref.HeaderLen(h)+n)
		}
	})
}

// TestHeaderSequenceOnOneReader: several headers decoded by the SAME wsutil.Reader
// (its decoder keeps scratch state between frames) must each equal what the
// low-level decoder returns for the same bytes — including a zero Mask when the
// header is not masked ("returns the identical header").
func TestHeaderSequenceOnOneReader(t *testing.T) {
	hx.Check(t, 3, func(t *rapid.T) {
		n := rapid.IntRange(2, 6).Draw(t, "frames")
		var stream []byte
		var want []ref.Header
		for i := 0; i < n; i++ {
			h := ref.Header{
				Fin:    true,
				Rsv:    byte(rapid.IntRange(0, 7).Draw(t, "rsv")),
				Op:     rapid.SampledFrom([]byte{ref.OpText, ref.OpBinary}).Draw(t, "op"),
				Masked: rapid.Bool().Draw(t, "masked"),
				Length: int64(rapid.SampledFrom([]int{0, 1, 125, 126, 127, 300, 65535, 65536, 65540}).Draw(t, "len")),
			}
			if h.Masked {
				h.Mask = gen.Key(t, "key")
				if h.Mask == [4]byte{} {
					h.Mask = [4]byte{0xde, 0xad, 0xbe, 0xef}
				}
			}
			want = append(want, h)
			stream = append(stream, ref.EncodeHeader(h)...)
			stream = append(stream, gen.Filled(int(h.Length), byte(i))...)
		}
		src := tx.NewSrc(stream, gen.Chunks(t, "chunks"))
		rd := &wsutil.Reader{Source: src, SkipHeaderCheck: true}
		hx.Eval()
		hx.Class("sequence-on-one-reader")
		shape := ""
		for _, h := range want {
			shape += fmt.Sprintf("%v/%d;", h.Masked, ref.LengthForm(h.Length))
		}
		hx.NonTrivial(hx.Hash("seq", shape), func() interface{} { return map[string]interface{}{"dir": "sequence", "headers": shape} })
		for i, h := range want {
			got, err := rd.NextFrame()
			if err != nil {
				t.Fatalf("frame %d: NextFrame: %v", i, err)
			}
			g := toRef(got)
			if !sameHeader(g, h) {
				t.Fatalf("frame %d: Reader.NextFrame returned %v, stream has %v", i, g, h)
			}
			if !h.Masked && g.Mask != [4]byte{} {
				t.Fatalf("frame %d: Reader.NextFrame returned Mask %x for an unmasked header (ws.ReadHeader returns the zero key); previous headers: %v", i, g.Mask, want[:i])
			}
			if err := rd.Discard(); err != nil {
				t.Fatalf("frame %d: Discard: %v", i, err)
			}
		}
	})
}

// TestWholeFramesHuge: frames larger than 1 MiB (read by ws.ReadFrame in growing
// chunks): exactly Length payload bytes are returned and not one byte beyond the
// frame is consumed.
func TestWholeFramesHuge(t *testing.T) {
	const MiB = 1 << 20
	sizes := []int{MiB - 1, MiB, MiB + 1, MiB + 4096, 2*MiB + 3, 3 * MiB}
	if hx.Thorough() {
		sizes = append(sizes, 4*MiB+1, 5*MiB, 8*MiB+7)
	}
	n := 0
	for i, size := range sizes {
		if !hx.Mine(i) {
			continue
		}
		for _, masked := range []bool{false, true} {
			h := ref.Header{Fin: true, Op: ref.OpBinary, Masked: masked, Length: int64(size)}
			if masked {
				h.Mask = [4]byte{1, 2, 3, 4}
			}
			payload := gen.Filled(size, byte(i))
			tail := append(ref.EncodeHeader(ref.Header{Fin: true, Op: ref.OpText, Length: 2}), 'o', 'k')
			stream := append(append(ref.EncodeHeader(h), payload...), tail...)
			src := tx.NewSrc(nil, nil)
			src.Data = stream
			n++
			noteHeader(h, "hugeframe")
			f, err := ws.ReadFrame(src)
			desc := map[string]interface{}{"payload": size, "masked": masked}
			if err != nil {
				hx.Failf(t, desc, "ReadFrame of a complete %d-byte frame: %v", size, err)
				return
			}
			if !sameHeader(toRef(f.Header), h) || !bytes.Equal(f.Payload, payload) {
				hx.Failf(t, desc, "ReadFrame returned %d payload bytes for a frame of %d", len(f.Payload), size)
				return
			}
			if !bytes.Equal(src.Remaining(), tail) {
				hx.Failf(t, desc, "ReadFrame consumed %d bytes of a %d-byte frame (the next frame was touched)", src.Pos, len(stream)-len(tail))
				return
			}
			next, err := ws.ReadFrame(src)
			if err != nil || string(next.Payload) != "ok" {
				hx.Failf(t, desc, "the frame following a %d-byte frame was not read back intact: %v %q", size, err, next.Payload)
				return
			}
			// the same frame cut inside its payload (stream ends / transport fails) is never returned as whole
			hl := len(ref.EncodeHeader(h))
			for _, keep := range []int{0, 1, MiB - 1, MiB, MiB + 1, size / 2, size - 1} {
				if keep >= size {
					continue
				}
				for _, end := range []error{nil, tx.ErrInjected} {
					cut := tx.NewSrc(nil, nil)
					cut.Data, cut.End = stream[:hl+keep], end
					n++
					if f, err := ws.ReadFrame(cut); err == nil {
						hx.Failf(t, map[string]interface{}{"payload": size, "masked": masked, "payload_bytes_present": keep, "ends_with": fmt.Sprint(end)},
							"ReadFrame reported success for a %d-byte frame of which only %d payload bytes arrived (returned %d)", size, keep, len(f.Payload))
						return
					}
				}
			}
		}
	}
	hx.EvalN(n)
	hx.Part("whole frames > 1 MiB followed by another frame", int64(n), true)
}

// TestFrameConstructorsAndAccessors: the frame constructors, the Must*
// variants and the reserved-bit helpers are thin layers over the codec; what
// they put on the wire (and read back from it) must be the reference encoding
// of the frame they document.
func TestFrameConstructorsAndAccessors(t *testing.T) {
	// the exported size constants are the RFC's: 2 bytes minimum, 2+8+4 maximum, 125 for control payloads
	if ws.MinHeaderSize != 2 || ws.MaxHeaderSize != 14 || ws.MaxControlFramePayloadSize != 125 {
		t.Fatalf("ws.MinHeaderSize=%d ws.MaxHeaderSize=%d ws.MaxControlFramePayloadSize=%d; RFC 6455 section 5.2/5.5: 2, 14, 125", ws.MinHeaderSize, ws.MaxHeaderSize, ws.MaxControlFramePayloadSize)
	}
	if n := ws.HeaderSize(ws.Header{Masked: true, Length: 1 << 40}); n != ws.MaxHeaderSize {
		t.Fatalf("the largest header has %d bytes, ws.MaxHeaderSize says %d", n, ws.MaxHeaderSize)
	}
	if n := ws.HeaderSize(ws.Header{}); n != ws.MinHeaderSize {
		t.Fatalf("the smallest header has %d bytes, ws.MinHeaderSize says %d", n, ws.MinHeaderSize)
	}
	// reserved-bit helpers, exhaustively: Rsv/RsvBits/Header.RsvN agree with the wire bits 0x40 0x20 0x10
	for v := 0; v < 8; v++ {
		r1, r2, r3 := v&4 != 0, v&2 != 0, v&1 != 0
		rsv := ws.Rsv(r1, r2, r3)
		h := ws.Header{Fin: true, OpCode: ws.OpBinary, Rsv: rsv}
		rec := tx.NewRec()
		if err := ws.WriteHeader(rec, h); err != nil {
			t.Fatalf("WriteHeader: %v", err)
		}
		b0 := rec.Bytes()[0]
		if (b0&0x40 != 0) != r1 || (b0&0x20 != 0) != r2 || (b0&0x10 != 0) != r3 {
			t.Fatalf("ws.Rsv(%v,%v,%v)=%#x went to the wire as first byte %#x", r1, r2, r3, rsv, b0)
		}
		got, err := ws.ReadHeader(bytes.NewReader(rec.Bytes()))
		if err != nil {
			t.Fatalf("ReadHeader: %v", err)
		}
		g1, g2, g3 := ws.RsvBits(got.Rsv)
		if g1 != r1 || g2 != r2 || g3 != r3 || got.Rsv1() != r1 || got.Rsv2() != r2 || got.Rsv3() != r3 {
			t.Fatalf("reserved bits %v %v %v read back as RsvBits=%v %v %v, Rsv1/2/3=%v %v %v", r1, r2, r3, g1, g2, g3, got.Rsv1(), got.Rsv2(), got.Rsv3())
		}
		hx.Eval()
	}
	type ctor struct {
		name string
		mk   func(p []byte) ws.Frame
		op   byte
		fin  bool
	}
	ctors := []ctor{
		{"NewTextFrame", ws.NewTextFrame, ref.OpText, true},
		{"NewBinaryFrame", ws.NewBinaryFrame, ref.OpBinary, true},
		{"NewPingFrame", ws.NewPingFrame, ref.OpPing, true},
		{"NewPongFrame", ws.NewPongFrame, ref.OpPong, true},
		{"NewCloseFrame", ws.NewCloseFrame, ref.OpClose, true},
	}
	for op := 0; op < 16; op++ {
		for _, fin := range []bool{false, true} {
			op, fin := op, fin
			ctors = append(ctors, ctor{fmt.Sprintf("NewFrame(%#x,%v)", op, fin), func(p []byte) ws.Frame { return ws.NewFrame(ws.OpCode(op), fin, p) }, byte(op), fin})
		}
	}
	for _, c := range ctors {
		for _, n := range []int{0, 1, 2, 125, 126, 127, 300, 65535, 65536, 65537} {
			if ref.IsControl(c.op) && n > 125 && c.name[:8] != "NewFrame" {
				continue // the control-frame constructors document a 125 byte limit
			}
			p := gen.Filled(n, byte(n))
			f := c.mk(p)
			want := append(ref.EncodeHeader(ref.Header{Fin: c.fin, Op: c.op, Length: int64(n)}), p...)
			rec := tx.NewRec()
			ws.MustWriteFrame(rec, f)
			if !bytes.Equal(rec.Bytes(), want) {
				t.Fatalf("%s with %d payload bytes, written with MustWriteFrame: %x…, want %x…", c.name, n, head(rec.Bytes()), head(want))
			}
			if got := ws.MustCompileFrame(f); !bytes.Equal(got, want) {
				t.Fatalf("%s with %d payload bytes, MustCompileFrame: %x…, want %x…", c.name, n, head(got), head(want))
			}
			back := ws.MustReadFrame(tx.NewSrc(want, []int{1, 3}))
			if !sameHeader(toRef(back.Header), ref.Header{Fin: c.fin, Op: c.op, Length: int64(n)}) || !bytes.Equal(back.Payload, p) {
				t.Fatalf("MustReadFrame of %s(%d bytes): header %v, %d payload bytes", c.name, n, toRef(back.Header), len(back.Payload))
			}
			// the Must variants panic where the plain ones return an error
			if n > 0 {
				func() {
					defer func() {
						if recover() == nil {
							t.Fatalf("MustReadFrame returned normally on a frame cut inside its payload (%s, %d of %d bytes)", c.name, n-1, n)
						}
					}()
					ws.MustReadFrame(bytes.NewReader(want[:len(want)-1]))
				}()
			}
			func() {
				fail := tx.NewRec()
				fail.FailAt = 0
				defer func() {
					if recover() == nil {
						t.Fatalf("MustWriteFrame returned normally although the destination failed (%s)", c.name)
					}
				}()
				ws.MustWriteFrame(fail, f)
			}()
			hx.Eval()
			hx.NonTrivial(hx.Hash("ctor", c.name, n), func() interface{} { return map[string]interface{}{"constructor": c.name, "payload_len": n} })
		}
	}
}

func head(p []byte) []byte {
	if len(p) > 16 {
		return p[:16]
	}
	return p
}
