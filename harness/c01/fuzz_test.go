package c01

import (
	"testing"

	"verif/harness/ref"
)

// FuzzDecode drives both header decoders with coverage-guided byte strings;
// the oracle is the same reference comparison as in TestDecodeRandom. The
// first input byte selects the transport chunking.
func FuzzDecode(f *testing.F) {
	f.Add([]byte{0, 0x81, 0x05})
	f.Add([]byte{1, 0x82, 0xfe, 0x00, 0x7e, 1, 2, 3, 4})
	f.Add([]byte{2, 0x88, 0x7f, 0, 0, 0, 0, 0, 1, 0, 0})
	f.Add([]byte{0, 0x0f, 0xff, 0x80, 0, 0, 0, 0, 0, 0, 0, 9, 9, 9, 9})
	f.Add([]byte{3, 0x81, 0x7e, 0x00, 0x05})
	f.Fuzz(func(t *testing.T, data []byte) {
		if len(data) == 0 {
			return
		}
		var sizes []int
		switch data[0] % 4 {
		case 1:
			sizes = []int{1}
		case 2:
			sizes = []int{2, 3}
		case 3:
			sizes = []int{7, 1}
		}
		b := data[1:]
		if len(b) > 32 {
			b = b[:32]
		}
		if msg := checkDecode(b, sizes); msg != "" {
			v, _, _ := ref.DecodeHeader(b)
			t.Fatalf("%s\nbytes=%x chunks=%v ref=%v", msg, b, sizes, v)
		}
	})
}
