// C17 — returned data and caller buffers are never aliased to pooled or
// internal memory.
//
// The process runs with GOMAXPROCS(1) and the garbage collector switched off
// inside a case, so that sync.Pool hands the object that was just put back to
// the next Get: a result that aliases a pooled buffer is overwritten by the
// follow-up operations of the same case.
package c17

import (
	"bufio"
	"bytes"
	"crypto/sha1"
	"encoding/base64"
	"errors"
	"fmt"
	"io"
	"math/rand"
	"net"
	"net/http"
	"net/url"
	"os"
	"runtime"
	"runtime/debug"
	"strings"
	"testing"
	"time"

	"github.com/gobwas/httphead"
	"github.com/gobwas/ws"
	"github.com/gobwas/ws/wsflate"
	"github.com/gobwas/ws/wsutil"
	"pgregory.net/rapid"

	"verif/harness/gen"
	"verif/harness/hx"
	"verif/harness/ref"
	"verif/harness/tx"
)

func TestMain(m *testing.M) {
	runtime.GOMAXPROCS(1)
	debug.SetGCPercent(-1)
	hx.Main(m, "C17")
}

var caseNo int

func housekeeping() {
	caseNo++
	if caseNo%64 == 0 {
		runtime.GC() // bounded memory; pools are emptied between cases only
	}
}

const guid = "258EAFA5-E914-47DA-95CA-C5AB0DC85B11"

func acceptFor(key string) string {
	h := sha1.Sum([]byte(key + guid))
	return base64.StdEncoding.EncodeToString(h[:])
}

// ---------------------------------------------------------------------------
// rendering results (deep read of everything reachable)

func renderOption(o httphead.Option) string {
	var b strings.Builder
	b.Write(o.Name)
	o.Parameters.ForEach(func(k, v []byte) bool {
		b.WriteString(";")
		b.Write(k)
		b.WriteString("=")
		b.Write(v)
		return true
	})
	return b.String()
}

func renderHS(hs ws.Handshake) string {
	var b strings.Builder
	b.WriteString("proto=")
	b.WriteString(hs.Protocol)
	for _, o := range hs.Extensions {
		b.WriteString(" | ")
		b.WriteString(renderOption(o))
	}
	return strings.Clone(b.String())
}

// ---------------------------------------------------------------------------
// vocabulary: generation g uses letters disjoint from generation g' != g, with
// equal lengths, so a recycled buffer holds different bytes at the same place.

type vocab struct {
	protos []string
	exts   []string // names
	params [][2]string
	lens   []int
}

func word(gen, idx, n int) string {
	b := make([]byte, n)
	for i := range b {
		b[i] = byte('a' + (gen*7+idx*3+i)%26)
	}
	if gen%2 == 1 && n > 0 {
		b[0] = byte('A' + (gen+idx)%26)
	}
	return string(b)
}

// shape is the part of a handshake that stays the same across the steps of a
// case (counts and lengths), content varies with the generation number.
type shape struct {
	ProtoLens []int
	ExtLens   []int
	ParamLens [][2]int // per extension: key length, value length (0,0 = no parameter)
	BufSize   int
	Pick      int // index of the protocol the server accepts
	LF        bool
	// SplitExt: the offers go out in two Sec-WebSocket-Extensions header lines (first offer / the rest)
	// instead of one list; the selection result is the same.
	SplitExt bool
}

func drawShape(t *rapid.T) shape {
	var s shape
	np := rapid.IntRange(1, 4).Draw(t, "nproto")
	for i := 0; i < np; i++ {
		s.ProtoLens = append(s.ProtoLens, rapid.IntRange(1, 12).Draw(t, "plen"))
	}
	ne := rapid.IntRange(1, 3).Draw(t, "next")
	for i := 0; i < ne; i++ {
		s.ExtLens = append(s.ExtLens, rapid.IntRange(2, 14).Draw(t, "elen"))
		if rapid.Bool().Draw(t, "param") {
			s.ParamLens = append(s.ParamLens, [2]int{rapid.IntRange(1, 8).Draw(t, "klen"), rapid.IntRange(0, 8).Draw(t, "vlen")})
		} else {
			s.ParamLens = append(s.ParamLens, [2]int{0, 0})
		}
	}
	s.BufSize = rapid.SampledFrom([]int{0, 128, 256, 512, 4096}).Draw(t, "bufsize")
	s.Pick = rapid.IntRange(0, np-1).Draw(t, "pick")
	s.SplitExt = ne >= 2 && rapid.Bool().Draw(t, "splitext")
	return s
}

func (s shape) protos(g int) []string {
	var out []string
	for i, n := range s.ProtoLens {
		out = append(out, word(g, i, n))
	}
	return out
}

func (s shape) extHeader(g int) string {
	var parts []string
	for i, n := range s.ExtLens {
		p := word(g, 10+i, n)
		if kl := s.ParamLens[i][0]; kl > 0 {
			p += "; " + word(g, 20+i, kl)
			if vl := s.ParamLens[i][1]; vl > 0 {
				p += "=" + word(g, 30+i, vl)
			}
		}
		parts = append(parts, p)
	}
	return strings.Join(parts, ", ")
}

// extRendered is how renderHS shows the offered extensions of generation g when all are accepted as offered.
func (s shape) extRendered(g int) string {
	var b strings.Builder
	for i, n := range s.ExtLens {
		b.WriteString(" | " + word(g, 10+i, n))
		if kl := s.ParamLens[i][0]; kl > 0 {
			b.WriteString(";" + word(g, 20+i, kl) + "=")
			if vl := s.ParamLens[i][1]; vl > 0 {
				b.WriteString(word(g, 30+i, vl))
			}
		}
	}
	return b.String()
}

// dialRendered is how renderHS shows what the server of clientUpgradeBR selected in generation g (every
// offered extension, parameter values one byte longer than in the shape).
func (s shape) dialRendered(g int) string {
	var b strings.Builder
	for i, n := range s.ExtLens {
		b.WriteString(" | " + word(g, 10+i, n))
		if kl := s.ParamLens[i][0]; kl > 0 {
			b.WriteString(";" + word(g, 20+i, kl) + "=" + word(g, 30+i, s.ParamLens[i][1]+1))
		}
	}
	return b.String()
}

func (s shape) request(g int, deflate string) []byte {
	key := base64.StdEncoding.EncodeToString([]byte(word(g, 40, 16)))
	ext := s.extHeader(g)
	if deflate != "" {
		ext = deflate + ", " + ext
	}
	if s.SplitExt {
		if i := strings.Index(s.extHeader(g), ", "); i >= 0 {
			pre := len(ext) - len(s.extHeader(g))
			ext = ext[:pre+i] + "\r\nSec-WebSocket-Extensions: " + ext[pre+i+2:]
		}
	}
	return []byte("GET /" + word(g, 41, 5) + " HTTP/1.1\r\nHost: " + word(g, 42, 9) + "\r\nUpgrade: websocket\r\nConnection: Upgrade\r\n" +
		"Sec-WebSocket-Version: 13\r\nSec-WebSocket-Key: " + key + "\r\n" +
		"Sec-WebSocket-Protocol: " + strings.Join(s.protos(g), ", ") + "\r\n" +
		"Sec-WebSocket-Extensions: " + ext + "\r\n\r\n")
}

// ---------------------------------------------------------------------------
// operations

// serverUpgrade runs ws.Upgrader over the request of generation g.
func serverUpgrade(s shape, g int, path string, chunks []int) (ws.Handshake, error) {
	want := s.protos(g)[s.Pick]
	u := ws.Upgrader{ReadBufferSize: s.BufSize, WriteBufferSize: s.BufSize}
	u.Protocol = func(p []byte) bool { return string(p) == want }
	deflate := ""
	var e wsflate.Extension
	switch path {
	case "Extension":
		u.Extension = func(o httphead.Option) bool { return true }
	case "Negotiate:wsflate":
		deflate = "permessage-deflate; client_max_window_bits=1" + fmt.Sprint(g%6) + "; server_no_context_takeover"
		e = wsflate.Extension{Parameters: wsflate.Parameters{ServerNoContextTakeover: true, ClientMaxWindowBits: 10}}
		u.Negotiate = e.Negotiate
	}
	rw := tx.RW{Reader: tx.NewSrc(s.request(g, deflate), chunks), Writer: tx.NewRec()}
	return u.Upgrade(rw)
}

type fakeConn struct {
	bytes.Buffer
}

func (c *fakeConn) Close() error                     { return nil }
func (c *fakeConn) LocalAddr() net.Addr              { return nil }
func (c *fakeConn) RemoteAddr() net.Addr             { return nil }
func (c *fakeConn) SetDeadline(time.Time) error      { return nil }
func (c *fakeConn) SetReadDeadline(time.Time) error  { return nil }
func (c *fakeConn) SetWriteDeadline(time.Time) error { return nil }

type hijackWriter struct {
	conn *fakeConn
	hdr  http.Header
}

func (h *hijackWriter) Header() http.Header       { return h.hdr }
func (h *hijackWriter) Write(p []byte) (int, error) { return len(p), nil }
func (h *hijackWriter) WriteHeader(int)           {}
func (h *hijackWriter) Hijack() (net.Conn, *bufio.ReadWriter, error) {
	return h.conn, bufio.NewReadWriter(bufio.NewReader(h.conn), bufio.NewWriter(h.conn)), nil
}

func httpUpgrade(s shape, g int, path string) (ws.Handshake, error) {
	want := s.protos(g)[s.Pick]
	u := ws.HTTPUpgrader{Protocol: func(p string) bool { return p == want }}
	deflate := ""
	var e wsflate.Extension
	switch path {
	case "Extension":
		u.Extension = func(o httphead.Option) bool { return true }
	case "Negotiate:wsflate":
		deflate = "permessage-deflate; client_max_window_bits=1" + fmt.Sprint(g%6) + "; server_no_context_takeover"
		e = wsflate.Extension{Parameters: wsflate.Parameters{ServerNoContextTakeover: true, ClientMaxWindowBits: 10}}
		u.Negotiate = e.Negotiate
	}
	req, err := http.ReadRequest(bufio.NewReader(bytes.NewReader(s.request(g, deflate))))
	if err != nil {
		return ws.Handshake{}, fmt.Errorf("harness: %v", err)
	}
	_, _, hs, err := u.Upgrade(req, &hijackWriter{conn: &fakeConn{}, hdr: http.Header{}})
	return hs, err
}

// lazyPeer answers the dialer's request once it has been written.
type lazyPeer struct {
	written bytes.Buffer
	render  func(key string) []byte
	chunks  []int
	src     *tx.Src
}

func (p *lazyPeer) Write(b []byte) (int, error) { return p.written.Write(b) }
func (p *lazyPeer) Read(b []byte) (int, error) {
	if p.src == nil {
		key := ""
		for _, line := range strings.Split(p.written.String(), "\r\n") {
			if strings.HasPrefix(line, "Sec-WebSocket-Key: ") {
				key = strings.TrimPrefix(line, "Sec-WebSocket-Key: ")
			}
		}
		p.src = tx.NewSrc(p.render(key), p.chunks)
	}
	return p.src.Read(b)
}

var dialURL, _ = url.Parse("ws://example.com/x")

// clientUpgrade dials with the offers of generation g; the server selects the
// picked protocol and answers every offered extension with a parameter value
// of generation g.
func clientUpgrade(s shape, g int, trailing int, chunks []int) (ws.Handshake, error) {
	br, hs, err := clientUpgradeBR(s, g, trailing, chunks)
	if br != nil {
		io.Copy(io.Discard, br)
		ws.PutReader(br)
	}
	return hs, err
}

// clientUpgradeBR returns the buffered reader as Dialer.Upgrade hands it out (nil when the
// server sent nothing beyond the response, or the dialer had not read it yet).
func clientUpgradeBR(s shape, g int, trailing int, chunks []int) (*bufio.Reader, ws.Handshake, error) {
	d := ws.Dialer{ReadBufferSize: s.BufSize, WriteBufferSize: s.BufSize, Protocols: s.protos(g)}
	var answer []string
	for i, n := range s.ExtLens {
		name := word(g, 10+i, n)
		d.Extensions = append(d.Extensions, httphead.NewOption(name, nil))
		a := name
		if kl := s.ParamLens[i][0]; kl > 0 {
			a += "; " + word(g, 20+i, kl) + "=" + word(g, 30+i, s.ParamLens[i][1]+1)
		}
		answer = append(answer, a)
	}
	proto := s.protos(g)[s.Pick]
	p := &lazyPeer{chunks: chunks, render: func(key string) []byte {
		return []byte("HTTP/1.1 101 Switching Protocols\r\nUpgrade: websocket\r\nConnection: Upgrade\r\nSec-WebSocket-Accept: " + acceptFor(key) +
			"\r\nSec-WebSocket-Protocol: " + proto + "\r\nSec-WebSocket-Extensions: " + strings.Join(answer, ", ") + "\r\n\r\n" + word(g, 60, trailing))
	}}
	offered := func() string {
		var b strings.Builder
		for _, o := range d.Extensions {
			b.WriteString(renderOption(o) + " | ")
		}
		return b.String() + strings.Join(d.Protocols, ",")
	}
	before := offered()
	br, hs, err := d.Upgrade(p, dialURL)
	if after := offered(); err == nil && after != before {
		// the Dialer's configuration is the caller's: a handshake reads it, it must not write the outcome into it
		return br, hs, fmt.Errorf("Dialer.Upgrade changed the caller's Dialer.Extensions / Protocols: %q -> %q", before, after)
	}
	return br, hs, err
}

// closeReason handles a close frame whose reason is word(g, ·, n) and returns the ClosedError.
func closeReason(side ws.State, g, n int) (wsutil.ClosedError, error) {
	payload := append([]byte{0x03, 0xe8}, word(g, 50, n)...)
	h := wsutil.ControlHandler{Src: bytes.NewReader(payload), Dst: tx.NewRec(), State: side, DisableSrcCiphering: true}
	err := h.Handle(ws.Header{Fin: true, OpCode: ws.OpClose, Length: int64(len(payload)), Masked: side.ServerSide()})
	var ce wsutil.ClosedError
	if !errors.As(err, &ce) {
		return ce, fmt.Errorf("harness: HandleClose returned %v", err)
	}
	return ce, nil
}

func ping(side ws.State, g, n int) {
	payload := []byte(word(g, 51, n))
	h := wsutil.ControlHandler{Src: bytes.NewReader(payload), Dst: tx.NewRec(), State: side, DisableSrcCiphering: true}
	h.Handle(ws.Header{Fin: true, OpCode: ws.OpPing, Length: int64(n), Masked: side.ServerSide()})
}

// readPayload sends one message of n bytes through ReadMessage/ReadData and returns the payload slice.
func readPayload(via string, side ws.State, g, n int, chunks []int) ([]byte, error) {
	return readPayloadF(via, side, g, n, chunks, 1)
}

// readPayloadF sends the message split into frags fragments (>= 1).
func readPayloadF(via string, side ws.State, g, n int, chunks []int, frags int) ([]byte, error) {
	p := []byte(word(g, 52, n))
	masked := side.ServerSide()
	var frames []ref.Frame
	for i := 0; i < frags; i++ {
		lo, hi := n*i/frags, n*(i+1)/frags
		op := byte(ref.OpBinary)
		if i > 0 {
			op = ref.OpCont
		}
		frames = append(frames, ref.Frame{H: ref.Header{Fin: i == frags-1, Op: op, Masked: masked, Mask: [4]byte{byte(g), 2, 3, byte(4 + i)}}, Payload: p[lo:hi]})
	}
	src := tx.NewSrc(ref.EncodeAll(frames), chunks)
	if via == "ReadMessage" {
		ms, err := wsutil.ReadMessage(src, side, nil)
		if err != nil || len(ms) != 1 {
			return nil, fmt.Errorf("harness: ReadMessage: %v", err)
		}
		return ms[0].Payload, nil
	}
	out, _, err := wsutil.ReadData(tx.RW{Reader: src, Writer: tx.NewRec()}, side)
	return out, err
}

// readFrames reads k frames of n bytes each with ws.ReadFrame from one source (buffered with the given
// bufio size, 0 = not buffered), keeps the first frame and returns its payload after all were read.
func readFrames(side ws.State, n int, chunks []int, bufsz, k int) ([]byte, error) {
	var wire []byte
	for g := 0; g < k; g++ {
		f := ref.Frame{H: ref.Header{Fin: true, Op: ref.OpBinary, Masked: side.ServerSide(), Mask: [4]byte{byte(g), 9, 9, 1}}, Payload: []byte(word(g, 52, n))}
		wire = append(wire, f.Encode()...)
	}
	var src io.Reader = tx.NewSrc(wire, chunks)
	if bufsz > 0 {
		src = bufio.NewReaderSize(src, bufsz)
	}
	var first ws.Frame
	for g := 0; g < k; g++ {
		f, err := ws.ReadFrame(src)
		if err != nil {
			return nil, fmt.Errorf("harness: ReadFrame %d: %v", g, err)
		}
		if f.Header.Masked {
			f = ws.UnmaskFrameInPlace(f)
		}
		if string(f.Payload) != word(g, 52, n) {
			return nil, fmt.Errorf("harness: frame %d read back wrong", g)
		}
		if g == 0 {
			first = f
		}
	}
	return first.Payload, nil
}

// readPartial makes ReadData return some bytes together with an error: a text message of n bytes whose
// last byte is not UTF-8 (cut=false), or a binary message of which only n-1 bytes arrive (cut=true).
func readPartial(side ws.State, g, n int, chunks []int, cut bool) ([]byte, error) {
	if n < 2 {
		n = 2
	}
	p := []byte(word(g, 52, n))
	op := byte(ref.OpBinary)
	if !cut {
		op = ref.OpText
		p[n-1] = 0xff
	}
	f := ref.Frame{H: ref.Header{Fin: true, Op: op, Masked: side.ServerSide(), Mask: [4]byte{byte(g), 5, 6, 7}}, Payload: p}
	wire := f.Encode()
	if cut {
		wire = wire[:len(wire)-1]
	}
	out, _, err := wsutil.ReadData(tx.RW{Reader: tx.NewSrc(wire, chunks), Writer: tx.NewRec()}, side)
	if err == nil {
		return nil, fmt.Errorf("harness: ReadData accepted a %s message", map[bool]string{true: "cut", false: "non-UTF-8 text"}[cut])
	}
	if len(out) > 0 && string(out) != string(p[:len(out)]) {
		return nil, fmt.Errorf("harness: ReadData returned %q with error %v, the message starts %q", head(out), err, head(p))
	}
	return out, nil
}

// readInto reads one single-frame message of n bytes with ReadMessage appending to ms.
func readInto(ms []wsutil.Message, side ws.State, g, n int, chunks []int) ([]byte, []wsutil.Message, error) {
	f := ref.Frame{H: ref.Header{Fin: true, Op: ref.OpBinary, Masked: side.ServerSide(), Mask: [4]byte{byte(g), 7, 3, 9}}, Payload: []byte(word(g, 52, n))}
	out, err := wsutil.ReadMessage(tx.NewSrc(f.Encode(), chunks), side, ms)
	if err != nil || len(out) != 1 || string(out[0].Payload) != word(g, 52, n) {
		return nil, out, fmt.Errorf("harness: ReadMessage into a recycled slice: %v (%d messages)", err, len(out))
	}
	return out[0].Payload, out, nil
}

// poolChurn takes and returns a byte buffer of every pbytes size class through
// library paths that use the pool (client-side writes copy the payload into a
// pooled buffer), overwriting whatever was put back last in each class.
func poolChurn(g int) {
	for c := 128; c <= 65536; c *= 2 {
		wsutil.WriteClientMessage(tx.NewRec(), ws.OpBinary, []byte(word(g, 56, c-1)))
		wsutil.WriteClientMessage(tx.NewRec(), ws.OpBinary, []byte(word(g+1, 57, c/2+1)))
		// three buffers of the class in use at the same time: a destination that itself writes through
		// the library (a relay) before it accepts the outer bytes
		wsutil.NewCipherWriter(&nestedDest{depth: 2, g: g, n: c - 1}, [4]byte{1, 2, 3, byte(g)}).Write([]byte(word(g+2, 58, c-1)))
	}
}

// nestedDest is a destination whose Write first performs another masked write of the same size class.
type nestedDest struct{ depth, g, n int }

func (d *nestedDest) Write(p []byte) (int, error) {
	if d.depth > 0 {
		wsutil.NewCipherWriter(&nestedDest{depth: d.depth - 1, g: d.g + 1, n: d.n}, [4]byte{9, byte(d.g), 7, 6}).Write([]byte(word(d.g+3, 59, d.n)))
	}
	return len(p), nil
}

// controlRoundTrip reads a fragmented message with an interleaved ping through
// ReadMessage, keeps the returned ping message, answers it with
// HandleControlMessage and returns the kept payload slice.
func controlRoundTrip(side ws.State, g, n int, chunks []int) ([]byte, error) {
	masked := side.ServerSide()
	ping := []byte(word(g, 58, n%125+1))
	pong := []byte(word(g+3, 59, n%60+2))
	frames := []ref.Frame{
		{H: ref.Header{Op: ref.OpText, Masked: masked, Mask: [4]byte{1, byte(g), 3, 4}}, Payload: []byte("he")},
		{H: ref.Header{Fin: true, Op: ref.OpPing, Masked: masked, Mask: [4]byte{9, 8, byte(g), 6}}, Payload: ping},
		{H: ref.Header{Fin: true, Op: ref.OpPong, Masked: masked, Mask: [4]byte{7, 7, byte(g), 1}}, Payload: pong},
		{H: ref.Header{Fin: true, Op: ref.OpCont, Masked: masked, Mask: [4]byte{5, 5, 5, byte(g)}}, Payload: []byte("llo")},
	}
	ms, err := wsutil.ReadMessage(tx.NewSrc(ref.EncodeAll(frames), chunks), side, nil)
	if err != nil || len(ms) != 3 || ms[0].OpCode != ws.OpPing || ms[1].OpCode != ws.OpPong {
		return nil, fmt.Errorf("harness: ReadMessage with two interleaved control frames: %v (%d messages)", err, len(ms))
	}
	// the control messages returned by one call must not share memory: the first is still intact after the second was collected
	if string(ms[0].Payload) != string(ping) || string(ms[1].Payload) != string(pong) {
		return nil, fmt.Errorf("control messages returned by one ReadMessage call: %q / %q, the stream carried %q / %q", ms[0].Payload, ms[1].Payload, ping, pong)
	}
	if err := wsutil.HandleControlMessage(tx.NewRec(), side, ms[0]); err != nil {
		return nil, fmt.Errorf("harness: HandleControlMessage(ping): %v", err)
	}
	return ms[0].Payload, nil
}

func clientWrite(g, n int) {
	wsutil.WriteClientMessage(tx.NewRec(), ws.OpBinary, []byte(word(g, 53, n)))
	w := wsutil.NewWriterSize(tx.NewRec(), ws.StateClientSide, ws.OpBinary, 64)
	w.WriteThrough([]byte(word(g, 54, n)))
	cw := wsutil.NewCipherWriter(tx.NewRec(), [4]byte{1, 2, 3, byte(g)})
	cw.Write([]byte(word(g, 55, n)))
}

// ---------------------------------------------------------------------------
// the history property

var resultKinds = []string{
	"Upgrader/Protocol+Extension", "Upgrader/Negotiate:wsflate", "HTTPUpgrader/Protocol+Extension", "HTTPUpgrader/Negotiate:wsflate",
	"Dialer", "ClosedError", "ReadMessage", "ReadData", "ReadMessage/fragmented", "ReadData/fragmented", "ReadMessage+HandleControlMessage", "ReadMessage/recycled-slice", "ReadData/partial-with-error", "ReadFrame", "Dialer/early-bytes",
}

func TestResultsSurvivePoolReuse(t *testing.T) {
	hx.Check(t, 4, func(t *rapid.T) {
		housekeeping()
		kind := rapid.SampledFrom(resultKinds).Draw(t, "result")
		s := drawShape(t)
		side := ws.StateServerSide
		if rapid.Bool().Draw(t, "client") {
			side = ws.StateClientSide
		}
		size := rapid.SampledFrom([]int{1, 5, 60, 120, 123, 126, 127, 128, 129, 250, 500, 1000, 4000, 65000}).Draw(t, "size")
		if kind == "ClosedError" && size > 123 {
			size = size%123 + 1
		}
		chunks := gen.Chunks(t, "chunks")
		trailing := rapid.SampledFrom([]int{0, 0, 3, 40}).Draw(t, "trailing")

		// step 1: obtain the result and snapshot it
		var live func() string
		var err error
		var earlyBR *bufio.Reader
		switch kind {
		case "Upgrader/Protocol+Extension", "Upgrader/Negotiate:wsflate":
			var hs ws.Handshake
			path := "Extension"
			if kind == "Upgrader/Negotiate:wsflate" {
				path = "Negotiate:wsflate"
			}
			hs, err = serverUpgrade(s, 0, path, chunks)
			live = func() string { return renderHS(hs) }
		case "HTTPUpgrader/Protocol+Extension":
			var hs ws.Handshake
			hs, err = httpUpgrade(s, 0, "Extension")
			live = func() string { return renderHS(hs) }
		case "HTTPUpgrader/Negotiate:wsflate":
			var hs ws.Handshake
			hs, err = httpUpgrade(s, 0, "Negotiate:wsflate")
			live = func() string { return renderHS(hs) }
		case "Dialer":
			var hs ws.Handshake
			hs, err = clientUpgrade(s, 0, trailing, chunks)
			live = func() string { return renderHS(hs) }
		case "ClosedError":
			var ce wsutil.ClosedError
			ce, err = closeReason(side, 0, size)
			live = func() string { return strings.Clone(fmt.Sprintf("%d %s", ce.Code, ce.Reason)) }
		case "ReadMessage+HandleControlMessage":
			var p []byte
			p, err = controlRoundTrip(side, 0, size, chunks)
			want := word(0, 58, size%125+1)
			live = func() string { return string(p) }
			if err == nil && string(p) != want {
				t.Fatalf("the ping payload returned by ReadMessage was changed by HandleControlMessage answering it: %q, want %q (side %v)", p, want, side)
			}
		case "Dialer/early-bytes":
			// bytes the server sent right after its response are handed to the caller in a buffered reader; the
			// caller may read them later, after other handshakes have come and gone (the reader is the caller's
			// until it gives it back with ws.PutReader)
			var hs ws.Handshake
			if trailing == 0 {
				trailing = 7
			}
			earlyBR, hs, err = clientUpgradeBR(s, 0, trailing, nil)
			live = func() string { return renderHS(hs) }
		case "ReadFrame":
			// ws.ReadFrame from a plain or a buffered source holding several frames: the payload of an earlier
			// frame stays what it was while the later frames are read (a buffered source refills its buffer)
			var p []byte
			p, err = readFrames(side, size, chunks, rapid.SampledFrom([]int{0, 16, 4096}).Draw(t, "bufio"), rapid.IntRange(2, 12).Draw(t, "frames"))
			live = func() string { return string(p) }
			if err == nil && string(p) != word(0, 52, size) {
				t.Fatalf("the payload of the first frame read by ws.ReadFrame changed while the following frames were read from the same source: %q…, want %q…", head(p), head([]byte(word(0, 52, size))))
			}
		case "ReadData/partial-with-error":
			// the bytes ReadData hands back TOGETHER WITH an error (the valid prefix of a text message with a bad
			// byte, the part of a payload that arrived before the stream ended) are the caller's as well
			var p []byte
			p, err = readPartial(side, 0, size, chunks, rapid.Bool().Draw(t, "cut"))
			live = func() string { return string(p) }
		case "ReadMessage/recycled-slice":
			// the msgs[:0] idiom: the caller passes the emptied slice of the previous call back in while it
			// still holds the earlier payloads; a later, shorter or equal message must not be read into them
			var p []byte
			var ms []wsutil.Message
			p, ms, err = readInto(nil, side, 0, size, chunks)
			live = func() string { return string(p) }
			for g, n := range []int{size, size - 1, size / 2, 1, size + 1} {
				if err != nil || n < 1 {
					break
				}
				_, ms, err = readInto(ms[:0], side, 20+g, n, chunks)
				if now := live(); err == nil && now != word(0, 52, size) {
					t.Fatalf("ReadMessage(src, state, msgs[:0]) read message %d (%d bytes) into the payload of an earlier message the caller still holds (%d bytes): %q…", g+2, n, size, head([]byte(now)))
				}
			}
		case "ReadMessage/fragmented", "ReadData/fragmented":
			var p []byte
			p, err = readPayloadF(strings.SplitN(kind, "/", 2)[0], side, 0, size, chunks, rapid.IntRange(2, 4).Draw(t, "frags"))
			live = func() string { return string(p) }
			if err == nil && string(p) != word(0, 52, size) {
				t.Fatalf("harness: fragmented message delivered wrong")
			}
		default:
			var p []byte
			p, err = readPayload(kind, side, 0, size, chunks)
			live = func() string { return string(p) }
		}
		if err != nil && strings.HasPrefix(err.Error(), "control messages returned") {
			t.Fatalf("%v (side %v)", err, side)
		}
		if err != nil {
			t.Fatalf("step 1 (%s) failed: %v\nshape: %+v", kind, err, s)
		}
		snapshot := live()
		if strings.HasPrefix(kind, "Dialer") || strings.HasPrefix(kind, "Upgrader") || strings.HasPrefix(kind, "HTTPUpgrader") {
			if !strings.Contains(snapshot, "proto="+s.protos(0)[s.Pick]) {
				t.Fatalf("harness: unexpected handshake result %q", snapshot)
			}
			// every accepted extension is its own copy of what was offered: with a selector that accepts everything
			// the result lists all offers as sent (several accepted options of one header line must not share memory)
			if strings.HasPrefix(kind, "Dialer") {
				if want := "proto=" + s.protos(0)[s.Pick] + s.dialRendered(0); snapshot != want {
					t.Fatalf("%s: the handshake result right after the call is\n  %q\nthe server selected\n  %q", kind, snapshot, want)
				}
			}
			if strings.HasSuffix(kind, "/Protocol+Extension") {
				if want := "proto=" + s.protos(0)[s.Pick] + s.extRendered(0); snapshot != want {
					t.Fatalf("%s: the handshake result right after the call is\n  %q\nthe request offered (and the selector accepted)\n  %q", kind, snapshot, want)
				}
			}
		}

		// steps 2..n: operations that recycle the pooled buffers with different content
		nsteps := rapid.IntRange(1, 6).Draw(t, "steps")
		sameClass := false
		var trace []string
		for g := 1; g <= nsteps; g++ {
			op := rapid.SampledFrom([]string{"same", "same", "upgrade", "dial", "close", "ping", "read", "clientwrite", "poolchurn", "readfrag"}).Draw(t, "op")
			if op == "same" {
				switch {
				case strings.HasPrefix(kind, "Upgrader"), strings.HasPrefix(kind, "HTTPUpgrader"):
					op = "upgrade"
				case kind == "Dialer", kind == "Dialer/early-bytes":
					op = "dial"
				case kind == "ClosedError":
					op = "close"
				case strings.HasSuffix(kind, "/fragmented"):
					op = "readfrag"
				case kind == "ReadMessage+HandleControlMessage":
					op = "control"
				default:
					op = "read"
				}
				sameClass = true
			}
			trace = append(trace, op)
			switch op {
			case "upgrade":
				if _, err := serverUpgrade(s, g, "Extension", chunks); err != nil {
					t.Fatalf("harness: follow-up upgrade failed: %v", err)
				}
			case "dial":
				if _, err := clientUpgrade(s, g, trailing, chunks); err != nil {
					t.Fatalf("harness: follow-up dial failed: %v", err)
				}
			case "close":
				closeReason(side, g, size%123+1)
				closeReason(side, g, size%123+1)
			case "ping":
				ping(side, g, size%125+1)
			case "read":
				readPayload("ReadData", side, g, size, chunks)
			case "clientwrite":
				clientWrite(g, size)
			case "poolchurn":
				poolChurn(g)
			case "readfrag":
				readPayloadF("ReadMessage", side, g, size, chunks, 3)
				readPayloadF("ReadData", side, g, size, chunks, 2)
			case "control":
				controlRoundTrip(side, g, size, chunks)
			}
			if now := live(); now != snapshot {
				t.Fatalf("%s result changed after follow-up step %d (%v):\n  before: %q\n  after:  %q\nshape: %+v size=%d", kind, g, trace, snapshot, now, s, size)
			}
		}
		if kind == "Dialer/early-bytes" {
			if earlyBR == nil {
				// the read buffer ended exactly at the end of the response head: the early bytes are still in the transport
				hx.Class("Dialer/early-bytes/left-in-transport")
			} else {
				got, _ := io.ReadAll(earlyBR)
				if want := word(0, 60, trailing); string(got) != want {
					t.Fatalf("the bytes the server sent right after its response, read from the returned reader after %d later operations (%v): %q, the server sent %q", nsteps, trace, head(got), head([]byte(want)))
				}
				ws.PutReader(earlyBR)
			}
		}
		hx.Eval()
		hx.Class(fmt.Sprintf("%s/sameclass=%v", kind, sameClass))
		if sameClass {
			hx.NonTrivial(hx.Hash(kind, fmt.Sprint(s), size, fmt.Sprint(trace), int(side), gen.ChunkClass(chunks)), func() interface{} {
				return map[string]interface{}{"result": kind, "shape": s, "size": size, "followups": trace, "snapshot": snapshot}
			})
		}
	})
}

// ---------------------------------------------------------------------------
// write side: caller slices stay intact; buffered bytes are not affected by later reuse

func scribble(p []byte) {
	for i := range p {
		p[i] = 0xEE
	}
}

func TestCallerBuffersUntouched(t *testing.T) {
	hx.Check(t, 6, func(t *rapid.T) {
		housekeeping()
		rand.Seed(rapid.Int64().Draw(t, "seed"))
		n := rapid.SampledFrom([]int{0, 1, 7, 8, 9, 100, 125, 126, 127, 128, 129, 255, 256, 257, 300, 1024, 4095, 4096, 4097, 5000,
			16384, 32768, 65535, 65536, 65537, 70000, 131072, 140000}).Draw(t, "n")
		var orig []byte
		if n <= 5000 {
			orig = rapid.SliceOfN(rapid.Byte(), n, n).Draw(t, "payload")
		} else {
			orig = gen.Filled(n, rapid.Byte().Draw(t, "fill"))
		}
		p := append([]byte(nil), orig...)
		if rapid.Bool().Draw(t, "poolClassCap") {
			// a caller buffer whose capacity is exactly a pbytes size class: the library must never
			// hand it to its pool, whatever role it writes in
			c := 128
			for c < n {
				c *= 2
			}
			if c <= 65536 {
				q := make([]byte, n, c)
				copy(q, orig)
				p = q
			}
		}
		if n > 0 && n <= 70000 && rapid.IntRange(0, 2).Draw(t, "spareCap") == 0 {
			// the caller's slice is the front part of a larger buffer of its own (one message out of a packed
			// buffer): what lies behind len(p) is the caller's as well and must stay what it was
			q := make([]byte, n, 2*n+rapid.IntRange(0, 16).Draw(t, "spare"))
			copy(q, orig)
			scribble(q[n:cap(q)])
			p = q
			hx.Class("caller-slice-with-spare-capacity>=len")
		}
		spare := p[len(p):cap(p)]
		spareWas := append([]byte(nil), spare...)
		defer func() {
			if r := recover(); r != nil {
				panic(r) // a failure reported further down: pass it on untouched
			}
			if !bytes.Equal(spare, spareWas) {
				t.Fatalf("the bytes behind the caller's slice (len %d, cap %d) in its own backing array were overwritten: %x… -> %x…", len(p), cap(p), head(spareWas), head(spare))
			}
		}()
		api := rapid.SampledFrom([]string{"WriteMessage", "WriteClientMessage", "WriteClientText", "WriteClientBinary", "WriteServerMessage", "WriteMessage/close",
			"Writer.WriteThrough", "Writer.Write+scribble+Flush", "CipherWriter.Write", "MaskFrame", "MaskFrameWith", "UnmaskFrame"}).Draw(t, "api")
		client := rapid.Bool().Draw(t, "client")
		state := ws.StateServerSide
		if client {
			state = ws.StateClientSide
		}
		rec := tx.NewRec()
		if rapid.IntRange(0, 3).Draw(t, "destFails") == 0 {
			// the destination fails one of the writes: the caller's bytes must be intact all the same
			rec.FailAt, rec.Short = rapid.IntRange(0, 1).Draw(t, "failAt"), rapid.IntRange(0, 3).Draw(t, "short")
		}
		hx.Eval()
		hx.Class(api)
		if n >= 8 {
			hx.NonTrivial(hx.Hash(api, n, client), func() interface{} { return map[string]interface{}{"api": api, "len": n, "client": client} })
		}
		// wire check helper: exactly the frames' unmasked payloads must equal orig
		wirePayload := func() []byte {
			if rec.FailAt >= 0 {
				return orig // a failing destination received a torn stream: only the caller's slice is judged
			}
			fs, rest, err := ref.ParseFrames(rec.Bytes())
			if err != nil || len(rest) != 0 {
				t.Fatalf("%s: destination bytes do not parse into frames: %v", api, err)
			}
			var out []byte
			for _, f := range fs {
				if f.H.Masked != client && api != "WriteClientMessage" && api != "WriteClientText" && api != "WriteClientBinary" && api != "WriteServerMessage" {
					t.Fatalf("%s: frame masked=%v on client=%v", api, f.H.Masked, client)
				}
				out = append(out, f.Payload...)
			}
			return out
		}
		switch api {
		case "WriteMessage/close":
			// a close body the caller built or is echoing (any status code, reserved ones included: what goes on
			// the wire is the caller's business here, its slice is not the library's to edit)
			code := rapid.SampledFrom([]int{1000, 1001, 1005, 1006, 1015, 3000, 0}).Draw(t, "code")
			if n > 123 {
				n = 123
			}
			orig = append([]byte{byte(code >> 8), byte(code)}, orig[:n]...)
			p = append(make([]byte, 0, cap(p)+2), orig...)
			if err := wsutil.WriteMessage(rec, state, ws.OpClose, p); err != nil && rec.FailAt < 0 {
				t.Fatal(err)
			}
			if !bytes.Equal(p, orig) {
				t.Fatalf("WriteMessage(OpClose) modified the caller's close body: %x… -> %x…", head(orig), head(p))
			}
			return
		case "WriteMessage":
			if err := wsutil.WriteMessage(rec, state, ws.OpBinary, p); err != nil && rec.FailAt < 0 {
				t.Fatal(err)
			}
		case "WriteClientMessage":
			wsutil.WriteClientMessage(rec, ws.OpBinary, p)
		case "WriteClientText":
			wsutil.WriteClientText(rec, p)
		case "WriteClientBinary":
			wsutil.WriteClientBinary(rec, p)
		case "WriteServerMessage":
			wsutil.WriteServerMessage(rec, ws.OpBinary, p)
		case "Writer.WriteThrough":
			w := wsutil.NewWriterSize(rec, state, ws.OpBinary, rapid.SampledFrom([]int{16, 128, 4096}).Draw(t, "wsize"))
			if rapid.Bool().Draw(t, "sendext") {
				// a send extension that leaves the header alone: the payload is still the caller's, not an encoder's
				w.SetExtensions(wsutil.SendExtensionFunc(func(h ws.Header) (ws.Header, error) { return h, nil }))
				hx.Class("Writer.WriteThrough/with-send-extension")
			}
			if _, err := w.WriteThrough(p); err != nil && rec.FailAt < 0 {
				t.Fatal(err)
			}
		case "Writer.Write+scribble+Flush":
			w := wsutil.NewWriterSize(rec, state, ws.OpBinary, rapid.SampledFrom([]int{16, 128, 4096, 8192}).Draw(t, "wsize"))
			if rapid.Bool().Draw(t, "sendext") {
				w.SetExtensions(wsutil.SendExtensionFunc(func(h ws.Header) (ws.Header, error) { return h, nil }))
			}
			if _, err := w.Write(p); err != nil && rec.FailAt < 0 {
				t.Fatal(err)
			}
			if !bytes.Equal(p, orig) {
				t.Fatalf("Writer.Write modified the caller's slice")
			}
			scribble(p)
			if err := w.Flush(); err != nil && rec.FailAt < 0 {
				t.Fatal(err)
			}
			if got := wirePayload(); !bytes.Equal(got, orig) {
				t.Fatalf("Writer.Write + caller reuse + Flush: the destination received %x…, the bytes written were %x…", head(got), head(orig))
			}
			return
		case "CipherWriter.Write":
			key := gen.Key(t, "key")
			if rapid.IntRange(0, 3).Draw(t, "zerokey") == 0 {
				key = [4]byte{} // a legal key under which masking changes nothing
				hx.Class("CipherWriter.Write/zero-key")
			}
			off := rapid.IntRange(0, 7).Draw(t, "prefix")
			cw := wsutil.NewCipherWriter(rec, key)
			pre := make([]byte, off)
			cw.Write(pre)
			if _, err := cw.Write(p); err != nil && rec.FailAt < 0 {
				t.Fatal(err)
			}
			if !bytes.Equal(p, orig) {
				t.Fatalf("CipherWriter.Write modified the caller's slice")
			}
			if rec.FailAt < 0 {
				want := append(ref.Mask(pre, key, 0), ref.Mask(orig, key, int64(off))...)
				if !bytes.Equal(rec.Bytes(), want) {
					t.Fatalf("CipherWriter output differs from the XOR of the original bytes")
				}
			}
			poolChurn(caseNo)
			if !bytes.Equal(p, orig) {
				t.Fatalf("CipherWriter.Write (key %x): the caller's slice (len %d cap %d) changed during later, unrelated writes: the library kept or pooled it: %x… -> %x…", key, len(p), cap(p), head(orig), head(p))
			}
			return
		case "MaskFrame", "MaskFrameWith", "UnmaskFrame":
			key := gen.Key(t, "key")
			f := ws.NewBinaryFrame(p)
			var out ws.Frame
			alreadyMasked := false
			switch api {
			case "MaskFrame", "MaskFrameWith":
				// a relay re-masking a frame it read from a client: the input header already says "masked".
				// Whatever the helper makes of that, it is a COPYING helper: the caller's payload stays as it is.
				if alreadyMasked = rapid.IntRange(0, 2).Draw(t, "inputMasked") == 0; alreadyMasked {
					f.Header.Masked, f.Header.Mask = true, gen.Key(t, "oldkey")
				}
				if api == "MaskFrame" {
					out = ws.MaskFrame(f)
					key = out.Header.Mask
				} else {
					out = ws.MaskFrameWith(f, key)
				}
				if alreadyMasked {
					if !bytes.Equal(p, orig) {
						t.Fatalf("%s on a frame whose header already says masked modified the caller's payload: %x… -> %x…", api, head(orig), head(p))
					}
					res := append([]byte(nil), out.Payload...)
					scribble(p)
					if !bytes.Equal(out.Payload, res) {
						t.Fatalf("%s result aliases the caller's payload (already-masked input)", api)
					}
					return
				}
			default:
				// the header may or may not say "masked": the copying helper copies either way
				f.Header.Masked, f.Header.Mask = rapid.Bool().Draw(t, "inputMasked"), key
				out = ws.UnmaskFrame(f)
			}
			if !bytes.Equal(p, orig) {
				t.Fatalf("%s modified the caller's payload", api)
			}
			want := ref.Mask(orig, key, 0)
			if !bytes.Equal(out.Payload, want) {
				t.Fatalf("%s result is not the XOR of the input", api)
			}
			scribble(p)
			if !bytes.Equal(out.Payload, want) {
				t.Fatalf("%s result aliases the caller's payload (changed when the caller reused its slice)", api)
			}
			copy(p, orig)
			scribble(out.Payload)
			if !bytes.Equal(p, orig) {
				t.Fatalf("%s: writing to the returned payload changed the caller's slice (the result aliases its argument)", api)
			}
			return
		}
		if !bytes.Equal(p, orig) {
			t.Fatalf("%s modified the caller's slice: %x… -> %x…", api, head(orig), head(p))
		}
		if got := wirePayload(); !bytes.Equal(got, orig) {
			t.Fatalf("%s: destination payload %x… differs from the caller's bytes %x…", api, head(got), head(orig))
		}
		// the caller keeps using its buffer: later pool traffic of every size class must not touch it
		poolChurn(caseNo)
		if !bytes.Equal(p, orig) {
			t.Fatalf("%s: the caller's slice (len %d cap %d) changed during later, unrelated client writes: the library kept or pooled it: %x… -> %x…", api, len(p), cap(p), head(orig), head(p))
		}
	})
}

// TestCallerSuppliedWriterBuffers: a buffer given to NewWriterBuffer /
// NewControlWriterBuffer stays the caller's: whatever the writer did with it
// (filled it, flushed it, outgrew it with flushing disabled, was reset), once
// the caller takes it back later library traffic must not write into it.
func TestCallerSuppliedWriterBuffers(t *testing.T) {
	hx.Check(t, 4, func(t *rapid.T) {
		housekeeping()
		rand.Seed(rapid.Int64().Draw(t, "seed"))
		capacity := rapid.SampledFrom([]int{16, 100, 128, 130, 256, 512, 1000, 1024, 4096, 8192, 65536}).Draw(t, "cap")
		length := capacity
		if rapid.Bool().Draw(t, "shorter") {
			length = capacity - rapid.IntRange(0, 2).Draw(t, "slack")
		}
		buf := make([]byte, length, capacity)
		client := rapid.Bool().Draw(t, "client")
		state := ws.StateServerSide
		if client {
			state = ws.StateClientSide
		}
		rec := tx.NewRec()
		var accepted []byte
		kind := rapid.SampledFrom([]string{"Writer", "Writer", "Writer", "ControlWriter"}).Draw(t, "kind")
		noFlush := false
		var trace []string
		if kind == "ControlWriter" {
			if length < 14 {
				return
			}
			cw := wsutil.NewControlWriterBuffer(rec, state, ws.OpPing, buf)
			p := []byte(word(1, 60, rapid.IntRange(0, min(125, length-14)).Draw(t, "ctl")))
			if _, err := cw.Write(p); err != nil {
				t.Fatalf("harness: ControlWriter.Write: %v", err)
			}
			cw.Flush()
			trace = append(trace, fmt.Sprintf("ctl %d", len(p)))
		} else {
			w := wsutil.NewWriterBuffer(rec, state, ws.OpBinary, buf)
			if noFlush = rapid.Bool().Draw(t, "disableFlush"); noFlush {
				w.DisableFlush()
			}
			for i, n := 0, rapid.IntRange(1, 5).Draw(t, "ops"); i < n; i++ {
				switch op := rapid.SampledFrom([]string{"write", "write", "grow", "flush", "reset", "readfrom"}).Draw(t, "op"); op {
				case "write", "readfrom":
					k := rapid.SampledFrom([]int{1, capacity / 2, capacity - 14, capacity, capacity + 1, 2*capacity + 3}).Draw(t, "n")
					if k < 1 {
						k = 1
					}
					p := []byte(word(i, 61, k))
					if op == "write" {
						w.Write(p)
					} else {
						w.ReadFrom(bytes.NewReader(p))
					}
					accepted = append(accepted, p...)
					trace = append(trace, fmt.Sprintf("%s %d", op, k))
				case "grow":
					k := rapid.SampledFrom([]int{1, capacity, 2 * capacity}).Draw(t, "grow")
					w.Grow(k)
					trace = append(trace, fmt.Sprintf("grow %d", k))
				case "flush":
					w.Flush()
					trace = append(trace, "flush")
				case "reset":
					w.Flush()
					w.Reset(rec, state, ws.OpBinary)
					if noFlush {
						w.DisableFlush()
					}
					trace = append(trace, "reset")
				}
			}
			if err := w.Flush(); err != nil {
				t.Fatalf("harness: Flush: %v", err)
			}
			fs, rest, err := ref.ParseFrames(rec.Bytes())
			if err != nil || len(rest) != 0 {
				t.Fatalf("destination bytes do not parse into frames: %v (%v)", err, trace)
			}
			var got []byte
			for _, f := range fs {
				got = append(got, f.Payload...)
			}
			if !bytes.Equal(got, accepted) {
				t.Fatalf("harness: the writer over a caller-supplied buffer delivered %d bytes, %d were written (%v)", len(got), len(accepted), trace)
			}
		}
		// the caller takes its buffer back
		full := buf[:capacity]
		for i := range full {
			full[i] = byte(0xA0 + i%7)
		}
		want := append([]byte(nil), full...)
		poolChurn(caseNo)
		clientWrite(3, capacity-1)
		ping(state, 4, 100)
		hx.Eval()
		hx.Class(fmt.Sprintf("%s/cap-is-pool-class=%v/noflush=%v", kind, capacity&(capacity-1) == 0 && capacity >= 128, noFlush))
		if noFlush || kind == "ControlWriter" {
			hx.NonTrivial(hx.Hash(kind, capacity, length, client, noFlush, fmt.Sprint(trace)), func() interface{} {
				return map[string]interface{}{"kind": kind, "cap": capacity, "len": length, "client": client, "disable_flush": noFlush, "ops": trace}
			})
		}
		if !bytes.Equal(full, want) {
			t.Fatalf("%s over a caller-supplied buffer (len %d cap %d, client=%v, flush disabled=%v, ops %v): after the caller took the buffer back, later unrelated library writes changed it — the library kept or pooled the caller's buffer: %x… -> %x…",
				kind, length, capacity, client, noFlush, trace, head(want), head(full))
		}
	})
}

// TestParsersLeaveTheirArgumentAlone: an option handed to the permessage-deflate
// parameter parser or negotiator (taken from a Handshake the caller holds, or
// pointing into the caller's request header) is read-only for the library,
// whatever the verdict on it.
func TestParsersLeaveTheirArgumentAlone(t *testing.T) {
	hx.Check(t, 2, func(t *rapid.T) {
		names := []string{"client_max_window_bits", "Client_Max_Window_Bits", "SERVER_NO_CONTEXT_TAKEOVER", "server_max_window_bits", "Server_max_window_bits", "x-Foo", "client_no_context_takeover"}
		values := []string{"", "10", "15", "8", "1", "abc"}
		header := []byte(rapid.SampledFrom([]string{"permessage-deflate", "Permessage-Deflate", "x-webkit-deflate-frame"}).Draw(t, "name"))
		opt := httphead.Option{Name: header[:len(header):len(header)]}
		var backing [][]byte
		for i := rapid.IntRange(0, 3).Draw(t, "nparams"); i > 0; i-- {
			k := []byte(rapid.SampledFrom(names).Draw(t, "pname"))
			v := []byte(rapid.SampledFrom(values).Draw(t, "pvalue"))
			if len(v) == 0 {
				v = nil
			}
			opt.Parameters.Set(k, v)
			backing = append(backing, k, v)
		}
		before := renderOption(opt)
		var snap [][]byte
		for _, b := range backing {
			snap = append(snap, append([]byte(nil), b...))
		}
		var p wsflate.Parameters
		perr := p.Parse(opt)
		e := wsflate.Extension{Parameters: wsflate.Parameters{ServerNoContextTakeover: rapid.Bool().Draw(t, "snct")}}
		_, nerr := e.Negotiate(opt)
		hx.Eval()
		hx.Class(fmt.Sprintf("parse-err=%v/negotiate-err=%v", perr != nil, nerr != nil))
		if strings.ToLower(before) != before {
			hx.NonTrivial(hx.Hash("parsearg", before), func() interface{} { return map[string]interface{}{"option": before} })
		}
		if after := renderOption(opt); after != before {
			t.Fatalf("Parameters.Parse / Extension.Negotiate rewrote the option they were given: %q -> %q", before, after)
		}
		for i, b := range backing {
			if !bytes.Equal(b, snap[i]) {
				t.Fatalf("Parameters.Parse / Extension.Negotiate rewrote the caller's bytes behind the option: %q -> %q", snap[i], b)
			}
		}
	})
}

// TestLibraryBuiltBodiesAreFresh: close bodies and frames built by the library
// are the caller's to modify (masking in place is the documented use): a later
// call must not see those modifications, and the precompiled frames stay intact.
func TestLibraryBuiltBodiesAreFresh(t *testing.T) {
	compiled := map[string][]byte{"ping": ws.CompiledPing, "pong": ws.CompiledPong, "close": ws.CompiledClose, "close1000": ws.CompiledCloseNormalClosure,
		"close1001": ws.CompiledCloseGoingAway, "close1002": ws.CompiledCloseProtocolError, "close1011": ws.CompiledCloseInternalServerError}
	snap := map[string]string{}
	for k, v := range compiled {
		snap[k] = string(v)
	}
	n := 0
	for _, code := range []ws.StatusCode{1000, 1001, 1002, 1003, 1007, 1008, 1009, 1010, 1011, 3000, 4999} {
		for _, reason := range []string{"", "bye", strings.Repeat("r", 123)} {
			for round := 0; round < 3; round++ {
				n++
				want := append([]byte{byte(code >> 8), byte(code)}, reason...)
				body := ws.NewCloseFrameBody(code, reason)
				if !bytes.Equal(body, want) {
					hx.Failf(t, map[string]interface{}{"code": code, "reason_len": len(reason), "round": round}, "NewCloseFrameBody(%d, %d-byte reason) = %x in round %d (an earlier result was masked in place by its owner)", code, len(reason), body, round)
					return
				}
				hx.NonTrivial(hx.Hash("closebody", int(code), len(reason), round), func() interface{} {
					return map[string]interface{}{"api": "NewCloseFrameBody+MaskFrameInPlace", "code": int(code), "reason_len": len(reason), "round": round}
				})
				f := ws.MaskFrameInPlaceWith(ws.NewCloseFrame(body), [4]byte{0xa5, 0x5a, 0xff, byte(round + 1)}) // what a client does before sending
				_ = f
			}
		}
	}
	for k, v := range compiled {
		if string(v) != snap[k] {
			hx.Failf(t, k, "ws.Compiled frame %q changed: %x -> %x", k, snap[k], v)
			return
		}
	}
	hx.EvalN(n)
}

func head(p []byte) []byte {
	if len(p) > 16 {
		return p[:16]
	}
	return p
}

var _ = os.Getenv
