// C09 — server handshake succeeds only for compliant requests and answers correctly.
//
// Requests are generated as structured values (reqgen.Request), classified by
// the acceptance model reqgen.Classify (written from the property statement,
// sharing no code with gobwas/ws or httphead) and given to ws.Upgrader over a
// chunked in-memory transport and to ws.HTTPUpgrader behind http.ReadRequest
// and a fake hijackable ResponseWriter. What the library writes is parsed back
// with net/http; the accept key is recomputed with crypto/sha1.
package c09

import (
	"bufio"
	"bytes"
	"fmt"
	"io"
	"net/http"
	"strconv"
	"strings"
	"testing"

	"github.com/gobwas/ws"
	"pgregory.net/rapid"

	"verif/harness/c09/reqgen"
	"verif/harness/gen"
	"verif/harness/hx"
	"verif/harness/tx"
)

func TestMain(m *testing.M) { hx.Main(m, "C09") }

// ---------------------------------------------------------------------------
// running the two upgraders

type outcome struct {
	err error
	out []byte
	hs  ws.Handshake
}

type transport struct {
	Chunks      []int
	EOFWithData bool
}

func runRaw(u ws.Upgrader, raw []byte, tr transport) outcome {
	src := tx.NewSrc(raw, tr.Chunks)
	src.EOFWithData = tr.EOFWithData
	rec := tx.NewRec()
	hs, err := u.Upgrade(tx.RW{Reader: src, Writer: rec})
	return outcome{err, rec.Bytes(), hs}
}

// runHTTP parses raw with net/http and runs the HTTP upgrader; ok is false
// when net/http itself refuses the request.
func runHTTP(u ws.HTTPUpgrader, raw []byte, wsize int) (o outcome, ok bool) {
	r, err := http.ReadRequest(bufio.NewReader(bytes.NewReader(raw)))
	if err != nil {
		return o, false
	}
	rec := tx.NewRec()
	w := tx.NewHijackable(nil, rec, wsize)
	_, _, hs, err := u.Upgrade(r, w)
	out := rec.Bytes() // only what reached the connection counts (the upgrader has to flush)
	if w.Status != 0 || w.Body.Len() > 0 {
		// not hijacked: the answer went through the ResponseWriter
		out = append(out, []byte(fmt.Sprintf("<<ResponseWriter status=%d body=%q>>", w.Status, w.Body.Bytes()))...)
	}
	return outcome{err, out, hs}, true
}

// ---------------------------------------------------------------------------
// parse-back of what the library wrote (independent parser: net/http)

type response struct {
	status int
	hdr    http.Header
	body   []byte
	rest   []byte // bytes after the response
	rawCL  string // Content-Length as written
}

func parseResponse(out []byte) (*response, error) {
	br := bufio.NewReader(bytes.NewReader(out))
	resp, err := http.ReadResponse(br, nil)
	if err != nil {
		return nil, err
	}
	body, err := io.ReadAll(resp.Body)
	if err != nil {
		return nil, fmt.Errorf("reading the body: %v", err)
	}
	rest, _ := io.ReadAll(br)
	p := &response{status: resp.StatusCode, hdr: resp.Header, body: body, rest: rest, rawCL: resp.Header.Get("Content-Length")}
	if resp.ContentLength < 0 && resp.StatusCode != 101 {
		return nil, fmt.Errorf("response has no usable Content-Length (body would run to the end of the connection)")
	}
	return p, nil
}

// has101 reports whether the bytes written look like (the start of) a 101 response.
func has101(out []byte) bool {
	line := out
	if i := bytes.IndexByte(out, '\n'); i >= 0 {
		line = out[:i]
	}
	f := strings.Fields(string(line))
	if len(f) >= 2 && f[1] == "101" {
		return true
	}
	return bytes.Contains(out, []byte("Switching Protocols"))
}

func hasHeader(h http.Header, kv reqgen.HeaderKV) bool {
	for _, v := range h.Values(kv.Name) {
		if v == kv.Value {
			return true
		}
	}
	return false
}

func missingHeaders(h http.Header, want []reqgen.HeaderKV) string {
	for _, kv := range want {
		if !hasHeader(h, kv) {
			return fmt.Sprintf("%s: %s", kv.Name, kv.Value)
		}
	}
	return ""
}

// ---------------------------------------------------------------------------
// oracle

// checkSuccess: err == nil, so the bytes must be exactly one 101 response
// with the right accept value, the subprotocol clause and the extension clause.
func checkSuccess(c *reqgen.Config, v *reqgen.Verdict, o outcome) string {
	p, err := parseResponse(o.out)
	if err != nil {
		return fmt.Sprintf("success reported but the bytes written do not parse as an HTTP response: %v", err)
	}
	if p.status != 101 {
		return fmt.Sprintf("success reported but status %d written", p.status)
	}
	if len(p.rest) != 0 || len(p.body) != 0 {
		return fmt.Sprintf("%d bytes written after the 101 response head", len(p.rest)+len(p.body))
	}
	if !strings.EqualFold(p.hdr.Get("Upgrade"), "websocket") {
		return fmt.Sprintf("101 response with Upgrade: %q", p.hdr.Get("Upgrade"))
	}
	if toks, ok := reqgen.StrictTokens(p.hdr.Get("Connection")); !ok || len(toks) != 1 || !strings.EqualFold(toks[0], "upgrade") {
		return fmt.Sprintf("101 response with Connection: %q", p.hdr.Get("Connection"))
	}
	acc := p.hdr.Values("Sec-Websocket-Accept")
	if len(acc) != 1 {
		return fmt.Sprintf("101 response with %d Sec-WebSocket-Accept headers", len(acc))
	}
	match := false
	for _, k := range v.Keys {
		if reqgen.AcceptKey(k) == acc[0] {
			match = true
		}
	}
	if !match {
		return fmt.Sprintf("Sec-WebSocket-Accept %q is not base64(sha1(key+GUID)) of any key received %q", acc[0], v.Keys)
	}
	// subprotocol: returned == sent, and the first the selector accepts
	sent := p.hdr.Values("Sec-Websocket-Protocol")
	switch {
	case o.hs.Protocol == "" && len(sent) != 0:
		return fmt.Sprintf("no subprotocol returned but %q sent", sent)
	case o.hs.Protocol != "" && (len(sent) != 1 || sent[0] != o.hs.Protocol):
		return fmt.Sprintf("subprotocol %q returned but %q sent", o.hs.Protocol, sent)
	}
	if v.ProtocolKnown && o.hs.Protocol != v.Protocol {
		return fmt.Sprintf("subprotocol %q selected, the first one in client order the selector accepts is %q", o.hs.Protocol, v.Protocol)
	}
	// extensions: with ExtensionCustom exactly what the hook returned, returned and sent
	if v.ExtExact {
		got := reqgen.FromLibrary(o.hs.Extensions)
		if fmt.Sprint(got) != fmt.Sprint(v.ExpectExt) {
			return fmt.Sprintf("returned extensions %v, ExtensionCustom returned %v", got, v.ExpectExt)
		}
		var sentExt []reqgen.Option
		for _, line := range p.hdr.Values("Sec-Websocket-Extensions") {
			opts, ok := reqgen.ListOptions(line)
			if !ok {
				return fmt.Sprintf("sent Sec-WebSocket-Extensions %q is not an option list", line)
			}
			sentExt = append(sentExt, opts...)
		}
		if fmt.Sprint(sentExt) != fmt.Sprint(v.ExpectExt) {
			return fmt.Sprintf("sent extensions %v, ExtensionCustom returned %v", sentExt, v.ExpectExt)
		}
	} else if v.OffersKnown {
		for _, e := range reqgen.FromLibrary(o.hs.Extensions) {
			if !reqgen.FromOffer(e, v.Offers) {
				return fmt.Sprintf("returned extension %q is not among the client's offers %v", e, v.Offers)
			}
		}
		for _, line := range p.hdr.Values("Sec-Websocket-Extensions") {
			opts, ok := reqgen.ListOptions(line)
			if !ok {
				return fmt.Sprintf("sent Sec-WebSocket-Extensions %q is not an option list", line)
			}
			for _, e := range opts {
				if !reqgen.FromOffer(e, v.Offers) {
					return fmt.Sprintf("sent extension %q is not among the client's offers %v", e, v.Offers)
				}
			}
		}
	}
	if m := missingHeaders(p.hdr, c.ResponseHeaders()); m != "" {
		return fmt.Sprintf("configured header %q missing from the 101 response", m)
	}
	if c.Kind == reqgen.Raw && c.OnBeforeUpgrade.Kind == reqgen.CbAccept {
		if m := missingHeaders(p.hdr, c.OnBeforeUpgrade.Headers); m != "" {
			return fmt.Sprintf("header %q returned by OnBeforeUpgrade missing from the 101 response", m)
		}
	}
	return ""
}

// checkErrorResponse: err != nil after a parseable request line, so the bytes
// must be exactly one HTTP error response with the error text as body.
func checkErrorResponse(c *reqgen.Config, v *reqgen.Verdict, b *reqgen.Built, o outcome, assertStatus bool) string {
	var from reqgen.Origin
	traced := false
	if b != nil {
		from, traced = b.Origin(o.err)
	}
	if b != nil && !traced && onlyCallbackObjections(v) {
		return fmt.Sprintf("the only objections come from user callbacks (%s), but the returned error %T %q is none of the values they returned", strings.Join(v.Wrong, "; "), o.err, o.err)
	}
	if traced && from.Reject {
		rej, ok := o.err.(*ws.ConnectionRejectedError)
		if !ok || rej.StatusCode() != from.Chosen {
			return fmt.Sprintf("%s rejected with status %d, the returned error (%T) reports another StatusCode()", from.Who, from.Chosen, o.err)
		}
		if from.Chosen != 0 && !reqgen.StatusAsserted(from.Chosen) {
			hx.Class("open/rejection with a status outside 3xx-5xx (or 304)")
			return "" // nothing is promised for such a "rejection"; no 101 was checked by the caller
		}
	}
	p, err := parseResponse(o.out)
	if err != nil {
		return fmt.Sprintf("failure (%v) but the bytes written are not one HTTP response: %v", o.err, err)
	}
	lowest := 400
	if traced && from.Reject && from.Chosen != 0 {
		lowest = 300 // a callback may reject with a redirect
	}
	if p.status < lowest || p.status > 599 {
		return fmt.Sprintf("failure (%v) answered with status %d", o.err, p.status)
	}
	if len(p.rest) != 0 {
		return fmt.Sprintf("%d bytes after the body of the error response", len(p.rest))
	}
	text := o.err.Error()
	if p.rawCL != strconv.Itoa(len(p.body)) || string(p.body) != text {
		return fmt.Sprintf("error response body %q (Content-Length %q), error text is %q (%d bytes)", p.body, p.rawCL, text, len(text))
	}
	if i := bytes.Index(o.out, []byte("\r\n\r\n")); i < 0 || !bytes.Equal(o.out[i+4:], []byte(text)) {
		return fmt.Sprintf("bytes after the blank line are not exactly the error text %q", text)
	}
	if m := missingHeaders(p.hdr, c.ResponseHeaders()); m != "" {
		return fmt.Sprintf("configured header %q missing from the %d response", m, p.status)
	}
	if traced {
		{
			if p.status != from.Status {
				return fmt.Sprintf("%s objected, status must be %d, written %d", from.Who, from.Status, p.status)
			}
			if m := missingHeaders(p.hdr, from.Headers); m != "" {
				return fmt.Sprintf("rejection header %q of %s missing from the response", m, from.Who)
			}
		}
	}
	if p.status == 426 && !traced {
		ok := false
		for _, val := range p.hdr.Values("Sec-Websocket-Version") {
			if toks, strict := reqgen.StrictTokens(val); strict {
				for _, t := range toks {
					ok = ok || t == "13"
				}
			}
		}
		if !ok {
			return "426 response without Sec-WebSocket-Version: 13"
		}
	}
	if assertStatus && !v.Allows(p.status) {
		return fmt.Sprintf("status %d written; acceptable for (%s) are %v", p.status, strings.Join(v.Wrong, "; "), v.Statuses)
	}
	return ""
}

// sigUnicodeFold: an Upgrade value that equals "websocket" only under Unicode
// simple case folding (LONG S, KELVIN SIGN) is accepted by both upgraders.
const sigUnicodeFold = "C09/upgrade-value-unicode-fold"

// onlyCallbackObjections: a must-fail case in which nothing but user callbacks
// object; the error Upgrade returns must then be one of their values.
func onlyCallbackObjections(v *reqgen.Verdict) bool {
	if v.Kind != reqgen.MustFail || len(v.Wrong) == 0 {
		return false
	}
	for _, w := range v.Wrong {
		if !strings.HasPrefix(w, "On") && !strings.HasPrefix(w, "negotiator objects") {
			return false
		}
	}
	return true
}

// sigHTTP2: ws.HTTPUpgrader upgrades a request whose version is HTTP/2.0 or
// higher ("HTTP/1.1 (or a later 1.x)" is required of both upgraders).
const sigHTTP2 = "C09/httpupgrader-accepts-http2-version"

// sigHTList: an HT next to a list separator (legal optional whitespace of an
// RFC 7230 comma list; "surrounding blanks ignored") makes the Connection /
// Sec-WebSocket-Protocol / Sec-WebSocket-Extensions value malformed for both
// upgraders.
const sigHTList = "C09/ht-inside-list-not-whitespace"

func probeHTTP2(t *testing.T) {
	var accepted []string
	for _, ver := range []string{"HTTP/2.0", "HTTP/2.1", "HTTP/3.0", "HTTP/9.9"} {
		r := reqgen.Valid("/chat", "example.com", gridKey)
		r.Version = ver
		o, ok := runDefault(reqgen.HTTP, r.Render())
		hx.Eval()
		if ok && (o.err == nil || has101(o.out)) {
			accepted = append(accepted, ver)
		}
	}
	r := reqgen.Valid("/chat", "example.com", gridKey)
	r.Version = "HTTP/2.0"
	hx.Probe(t, sigHTTP2, fmt.Sprintf("ws.UpgradeHTTP answers 101 to a request with version %q (http.ReadRequest + hijackable writer); the statement requires HTTP/1.1 or a later 1.x, ws.Upgrader answers 505", accepted),
		len(accepted) > 0, map[string]interface{}{"request": string(r.Render()), "versions_accepted": accepted})
}

func probeHTList(t *testing.T) {
	var refused []string
	try := func(kind reqgen.Kind, what string, req *reqgen.Request, cfg *reqgen.Config) {
		var o outcome
		ok := true
		if kind == reqgen.Raw {
			u, _ := cfg.Upgrader()
			o = runRaw(u, req.Render(), transport{})
		} else {
			u, _ := cfg.HTTPUpgrader()
			o, ok = runHTTP(u, req.Render(), 0)
		}
		hx.Eval()
		if ok && o.err != nil {
			refused = append(refused, fmt.Sprintf("%s %s -> %v", kind, what, o.err))
		}
	}
	for _, kind := range []reqgen.Kind{reqgen.Raw, reqgen.HTTP} {
		try(kind, "Connection: keep-alive,\\tUpgrade", reqgen.Valid("/", "example.com", gridKey).Set(reqgen.NameConnection, "keep-alive,\tUpgrade"), &reqgen.Config{Kind: kind})
		try(kind, "Sec-WebSocket-Protocol: chat,\\tsuperchat (selector accepts superchat)", reqgen.Valid("/", "example.com", gridKey).Add(reqgen.NameProtocol, "chat,\tsuperchat"),
			&reqgen.Config{Kind: kind, HasProtocol: true, Protocols: []string{"superchat"}})
		try(kind, "Sec-WebSocket-Extensions: x-a;\\tp=1 (Negotiate accepts)", reqgen.Valid("/", "example.com", gridKey).Add(reqgen.NameExtensions, "x-a;\tp=1"),
			&reqgen.Config{Kind: kind, ExtMode: reqgen.ExtNegotiate, Ext: map[string]reqgen.ExtPolicy{"x-a": {Act: reqgen.ExtAcceptAll}}})
	}
	hx.Probe(t, sigHTList, fmt.Sprintf("a compliant request whose list value has an HT next to a separator is refused with 400: %v", refused),
		len(refused) > 0, map[string]interface{}{"request": string(reqgen.Valid("/", "example.com", gridKey).Set(reqgen.NameConnection, "keep-alive,\tUpgrade").Render()), "refused": refused})
}

// judge applies the property to one executed case; "" means it held.
func judge(c *reqgen.Config, v *reqgen.Verdict, b *reqgen.Built, o outcome) string {
	if v.UnicodeFoldUpgrade && hx.Known(sigUnicodeFold) {
		hx.Exclude(sigUnicodeFold)
		return ""
	}
	if v.HTTP2ToHTTPUpgrader && hx.Known(sigHTTP2) {
		hx.Exclude(sigHTTP2)
		return ""
	}
	if v.HTInList && hx.Known(sigHTList) {
		hx.Exclude(sigHTList)
		return ""
	}
	if o.err != nil && has101(o.out) {
		return fmt.Sprintf("failure (%v) but a 101 response was written", o.err)
	}
	switch {
	case v.Kind == reqgen.MustSucceed && o.err != nil:
		return fmt.Sprintf("compliant request refused: %v", o.err)
	case (v.Kind == reqgen.MustFail || v.CertainFail) && o.err == nil:
		return fmt.Sprintf("non-compliant request accepted (%s)", strings.Join(v.Wrong, "; "))
	}
	if o.err == nil {
		return checkSuccess(c, v, o)
	}
	if v.LineParsed {
		return checkErrorResponse(c, v, b, o, v.Kind == reqgen.MustFail)
	}
	return ""
}

// ---------------------------------------------------------------------------
// evidence

func describe(req *reqgen.Request, c *reqgen.Config, v *reqgen.Verdict) map[string]interface{} {
	raw := string(req.Render())
	if len(raw) > 400 {
		raw = raw[:400] + "…"
	}
	states := map[string]string{}
	for h := reqgen.HeaderID(0); h < reqgen.NumRequired; h++ {
		states[h.String()] = req.States[h].String()
	}
	return map[string]interface{}{
		"upgrader": c.Kind.String(), "request": raw, "states": states, "verdict": v.String(),
		"callbacks": fmt.Sprintf("OnRequest=%v OnHost=%v OnHeader=%v OnBeforeUpgrade=%v ext=%v", c.OnRequest, c.OnHost, c.OnHeader, c.OnBeforeUpgrade, c.ExtMode),
	}
}

func nonCanonicalGood(req *reqgen.Request) bool {
	for _, s := range req.States {
		if s == reqgen.CaseVaried || s == reqgen.Padded || s == reqgen.DupGood {
			return true
		}
	}
	return false
}

func record(prefix string, req *reqgen.Request, c *reqgen.Config, v *reqgen.Verdict, extra string) {
	label := prefix + c.Kind.String() + "/" + v.Kind.String()
	switch {
	case v.Kind == reqgen.MustFail && len(v.Wrong) == 1:
		label += "/1:" + firstWord(v.Wrong[0])
	case v.Kind == reqgen.MustFail:
		label += "/several"
	case v.Kind == reqgen.Open && v.CertainFail:
		label += "/certain-fail"
	}
	hx.Class(label)
	for _, w := range v.OpenWhy {
		hx.Class(prefix + "open/" + w)
	}
	if extra != "" {
		hx.Class(extra)
	}
	if c.Kind == reqgen.HTTP && c.HasProtocol && c.ProtoHelper != reqgen.ProtoClosure {
		size := "<=16"
		if len(c.Protocols) > 16 {
			size = ">16"
		}
		hx.Class(fmt.Sprintf("%shttp/Protocol=ws.%v/accept-set%s", prefix, c.ProtoHelper, size))
	}
	if c.Kind == reqgen.Raw && c.ProtoCustom != reqgen.ProtoCustomNone {
		hx.Class(fmt.Sprintf("%sraw/ProtocolCustom=%v/Protocol-set=%v", prefix, c.ProtoCustom, c.HasProtocol))
	}
	if c.Kind == reqgen.Raw && c.ExtMode == reqgen.ExtCustom {
		hx.Class(fmt.Sprintf("%sraw/ExtensionCustom/Extension-set=%v", prefix, c.ExtSelectorAlso))
	}
	if c.ExtMode == reqgen.ExtNegotiate && len(v.ExtLines) >= 2 {
		hx.Class(prefix + c.Kind.String() + "/ext-lines/" + strings.Join(v.ExtLines, ","))
	}
	nontrivial := (v.Kind == reqgen.MustSucceed && nonCanonicalGood(req)) || (v.Kind == reqgen.MustFail && len(v.Wrong) == 1)
	if !nontrivial {
		return
	}
	hx.NonTrivial(hx.Hash(c.Kind.String(), fmt.Sprint(req.States), req.Method, req.Version, req.NoVersion, req.EOLStyle(),
		c.OnRequest.String(), c.OnHost.String(), c.OnHeader.String(), c.OnBeforeUpgrade.String(), c.ExtMode.String(), c.HasProtocol, c.ProtoCustom.String(), c.ExtSelectorAlso,
		v.Kind.String(), strings.Join(v.Wrong, "|")),
		func() interface{} { return describe(req, c, v) })
}

func firstWord(s string) string {
	if f := strings.Fields(s); len(f) > 0 {
		return f[0]
	}
	return s
}

func failText(req *reqgen.Request, c *reqgen.Config, v *reqgen.Verdict, tr transport, o outcome, msg string) string {
	return fmt.Sprintf("%s\nupgrader: %s\nrequest: %q\nconfig: %+v\nmodel: %s\ntransport: %+v\nerr: %v\nwritten: %q",
		msg, c.Kind, req.Render(), *c, v, tr, o.err, o.out)
}

// ---------------------------------------------------------------------------
// generated cases

func TestUpgraderModel(t *testing.T) {
	hx.Check(t, 30, func(t *rapid.T) {
		plan := reqgen.GenPlan(t, "plan", reqgen.Raw)
		req := reqgen.GenRequest(t, "req", plan)
		cfg := reqgen.GenConfig(t, "cfg", reqgen.Raw, plan)
		tr := transport{Chunks: gen.Chunks(t, "chunks"), EOFWithData: rapid.Bool().Draw(t, "eofWithData")}
		raw := req.Render()
		v := reqgen.Classify(req, cfg)
		hx.Eval()

		// a strict prefix of any request is not a request: it must fail and no 101 may appear
		if rapid.IntRange(0, 19).Draw(t, "truncate") == 0 {
			cut := rapid.IntRange(0, len(raw)-1).Draw(t, "cut")
			u, _ := cfg.Upgrader()
			o := runRaw(u, raw[:cut], tr)
			hx.Class("raw/truncated")
			if o.err == nil || has101(o.out) {
				t.Fatalf("%s", failText(req, cfg, &v, tr, o, fmt.Sprintf("request cut after %d of %d bytes: err=%v", cut, len(raw), o.err)))
			}
			return
		}

		u, built := cfg.Upgrader()
		o := runRaw(u, raw, tr)
		extra := ""
		if n := cfg.ReadBuf; n != 0 && req.MaxLineLen() > n || req.MaxLineLen() > 4096 {
			extra = "raw/line-longer-than-read-buffer"
		}
		record("", req, cfg, &v, extra)
		if msg := judge(cfg, &v, built, o); msg != "" {
			t.Fatalf("%s", failText(req, cfg, &v, tr, o, msg))
		}
	})
}

func TestHTTPUpgraderModel(t *testing.T) {
	hx.Check(t, 30, func(t *rapid.T) {
		plan := reqgen.GenPlan(t, "plan", reqgen.HTTP)
		req := reqgen.GenRequest(t, "req", plan)
		cfg := reqgen.GenConfig(t, "cfg", reqgen.HTTP, plan)
		raw := req.Render()
		v := reqgen.Classify(req, cfg)
		hx.Eval()
		u, built := cfg.HTTPUpgrader()
		o, ok := runHTTP(u, raw, cfg.WriteBuf)
		if !ok {
			hx.Class("http/refused-by-net/http")
			return
		}
		record("", req, cfg, &v, "")
		if msg := judge(cfg, &v, built, o); msg != "" {
			t.Fatalf("%s", failText(req, cfg, &v, transport{}, o, msg))
		}
	})
}

// ---------------------------------------------------------------------------
// package-level entry points: ws.Upgrade and ws.UpgradeHTTP use the exported
// ws.DefaultUpgrader / ws.DefaultHTTPUpgrader ("DefaultUpgrader is an Upgrader
// ... used by Upgrade function"). A generated configuration assigned to the
// default must behave exactly as through the method, and satisfy the model.
// The tests of this package run sequentially (no t.Parallel), the previous
// default is restored after every case.

func sameOutcome(a, b outcome) string {
	switch {
	case (a.err == nil) != (b.err == nil):
		return fmt.Sprintf("method err=%v, package-level function err=%v", a.err, b.err)
	case a.err != nil && a.err.Error() != b.err.Error():
		return fmt.Sprintf("method err=%q, package-level function err=%q", a.err, b.err)
	case !bytes.Equal(a.out, b.out):
		return fmt.Sprintf("bytes written differ:\nmethod:   %q\nfunction: %q", a.out, b.out)
	case a.hs.Protocol != b.hs.Protocol:
		return fmt.Sprintf("method protocol %q, function protocol %q", a.hs.Protocol, b.hs.Protocol)
	case fmt.Sprint(reqgen.FromLibrary(a.hs.Extensions)) != fmt.Sprint(reqgen.FromLibrary(b.hs.Extensions)):
		return fmt.Sprintf("method extensions %v, function extensions %v", reqgen.FromLibrary(a.hs.Extensions), reqgen.FromLibrary(b.hs.Extensions))
	}
	return ""
}

func viaDefaultUpgrader(u ws.Upgrader, raw []byte, tr transport) outcome {
	old := ws.DefaultUpgrader
	defer func() { ws.DefaultUpgrader = old }()
	ws.DefaultUpgrader = u
	src := tx.NewSrc(raw, tr.Chunks)
	src.EOFWithData = tr.EOFWithData
	rec := tx.NewRec()
	hs, err := ws.Upgrade(tx.RW{Reader: src, Writer: rec})
	return outcome{err, rec.Bytes(), hs}
}

func viaDefaultHTTPUpgrader(u ws.HTTPUpgrader, raw []byte, wsize int) (outcome, bool) {
	old := ws.DefaultHTTPUpgrader
	defer func() { ws.DefaultHTTPUpgrader = old }()
	ws.DefaultHTTPUpgrader = u
	r, err := http.ReadRequest(bufio.NewReader(bytes.NewReader(raw)))
	if err != nil {
		return outcome{}, false
	}
	rec := tx.NewRec()
	w := tx.NewHijackable(nil, rec, wsize)
	_, _, hs, err := ws.UpgradeHTTP(r, w)
	return outcome{err, rec.Bytes(), hs}, true
}

func TestDefaultEntryPoints(t *testing.T) {
	hx.Check(t, 6, func(t *rapid.T) {
		kind := reqgen.Raw
		if rapid.Bool().Draw(t, "http") {
			kind = reqgen.HTTP
		}
		plan := reqgen.GenPlan(t, "plan", kind)
		req := reqgen.GenRequest(t, "req", plan)
		cfg := reqgen.GenConfig(t, "cfg", kind, plan)
		tr := transport{Chunks: gen.Chunks(t, "chunks")}
		raw := req.Render()
		v := reqgen.Classify(req, cfg)
		hx.Eval()
		var viaMethod, viaFunc outcome
		var built *reqgen.Built
		if kind == reqgen.Raw {
			u1, _ := cfg.Upgrader()
			viaMethod = runRaw(u1, raw, tr)
			var u2 ws.Upgrader
			u2, built = cfg.Upgrader()
			viaFunc = viaDefaultUpgrader(u2, raw, tr)
		} else {
			u1, _ := cfg.HTTPUpgrader()
			var ok bool
			if viaMethod, ok = runHTTP(u1, raw, cfg.WriteBuf); !ok {
				hx.Class("default/http/refused-by-net/http")
				return
			}
			var u2 ws.HTTPUpgrader
			u2, built = cfg.HTTPUpgrader()
			viaFunc, _ = viaDefaultHTTPUpgrader(u2, raw, cfg.WriteBuf)
		}
		hx.Class("default/" + kind.String() + "/" + v.Kind.String())
		if msg := judge(cfg, &v, built, viaFunc); msg != "" {
			t.Fatalf("%s", failText(req, cfg, &v, tr, viaFunc, "through the package-level function with the configuration assigned to the default upgrader: "+msg))
		}
		if (v.UnicodeFoldUpgrade && hx.Known(sigUnicodeFold)) || (v.HTTP2ToHTTPUpgrader && hx.Known(sigHTTP2)) || (v.HTInList && hx.Known(sigHTList)) {
			return
		}
		if msg := sameOutcome(viaMethod, viaFunc); msg != "" {
			t.Fatalf("%s", failText(req, cfg, &v, tr, viaFunc, "configured default upgrader behaves differently through the package-level function: "+msg))
		}
	})
}

// ---------------------------------------------------------------------------
// ws.HTTPUpgrader with a ResponseWriter that cannot be hijacked: no Hijack
// method at all, a Hijack method that reports http.ErrNotSupported, or one
// that fails with its own error. The upgrade is refused before the request is
// looked at; the refusal goes through the ResponseWriter: an error response
// (500) whose body is the error text, with a matching Content-Length, and of
// course no 101. (HTTPUpgrader.Header is not asserted on this path.)

// sigNoHijackHeader: the 500 that HTTPUpgrader answers through a ResponseWriter
// it cannot hijack does not carry HTTPUpgrader.Header.
const sigNoHijackHeader = "C09/not-hijackable-response-omits-header"

func probeNoHijackHeader(t *testing.T) {
	raw := reqgen.Valid("/chat", "example.com", gridKey).Render()
	r, err := http.ReadRequest(bufio.NewReader(bytes.NewReader(raw)))
	if err != nil {
		t.Fatalf("net/http refuses the canonical request: %v", err)
	}
	w := tx.NewPlainWriter()
	u := ws.HTTPUpgrader{Header: http.Header{"X-Srv-A": {"a"}}}
	_, _, _, uerr := u.Upgrade(r, w)
	hx.Eval()
	present := uerr != nil && w.Status == 500 && w.HeaderAtWriteHeader.Get("X-Srv-A") != "a"
	hx.Probe(t, sigNoHijackHeader,
		fmt.Sprintf("HTTPUpgrader{Header: X-Srv-A: a}.Upgrade with a ResponseWriter that is no http.Hijacker answers %d with header %v: the configured header is missing", w.Status, w.HeaderAtWriteHeader),
		present, map[string]interface{}{"request": string(raw), "config": "ws.HTTPUpgrader{Header: http.Header{\"X-Srv-A\": {\"a\"}}}", "writer": "no Hijack method", "err": fmt.Sprint(uerr), "status": w.Status, "header": fmt.Sprint(w.HeaderAtWriteHeader), "body": w.Body.String()})
}

var errHijackBroken = fmt.Errorf("hijack: connection already taken over")

func TestHTTPNotHijackable(t *testing.T) {
	hx.Check(t, 3, func(t *rapid.T) {
		plan := reqgen.GenPlan(t, "plan", reqgen.HTTP)
		req := reqgen.GenRequest(t, "req", plan)
		cfg := reqgen.GenConfig(t, "cfg", reqgen.HTTP, plan)
		if rapid.IntRange(0, 3).Draw(t, "withHeader") > 0 && len(cfg.ResponseHeaders()) == 0 {
			// HTTPUpgrader.Header with content in most of these cases
			cfg.HeaderForm = reqgen.HeaderHTTP
			cfg.Header = []reqgen.HeaderKV{{Name: rapid.SampledFrom([]string{"X-Srv-A", "Server", "Set-Cookie"}).Draw(t, "hname"), Value: rapid.SampledFrom([]string{"a", "b c", "v=1; path=/"}).Draw(t, "hvalue")}}
		}
		variant := rapid.SampledFrom([]string{"no-hijacker", "hijack-not-supported", "hijack-fails"}).Draw(t, "writer")
		viaDefault := rapid.Bool().Draw(t, "viaUpgradeHTTP")
		raw := req.Render()
		hx.Eval()
		r, err := http.ReadRequest(bufio.NewReader(bytes.NewReader(raw)))
		if err != nil {
			hx.Class("nohijack/refused-by-net/http")
			return
		}
		u, _ := cfg.HTTPUpgrader()
		rec := tx.NewRec()
		var w http.ResponseWriter
		var status func() (int, http.Header, []byte)
		var wantErr error = ws.ErrNotHijacker
		switch variant {
		case "no-hijacker":
			pw := tx.NewPlainWriter()
			w, status = pw, func() (int, http.Header, []byte) { return pw.Status, pw.HeaderAtWriteHeader, pw.Body.Bytes() }
		default:
			hw := tx.NewHijackable(nil, rec, 0)
			hw.Err = fmt.Errorf("wrapped writer: %w", http.ErrNotSupported)
			if variant == "hijack-fails" {
				hw.Err, wantErr = errHijackBroken, errHijackBroken
			}
			w, status = hw, func() (int, http.Header, []byte) { return hw.Status, hw.Hdr, hw.Body.Bytes() }
		}
		var gotErr error
		if viaDefault {
			old := ws.DefaultHTTPUpgrader
			ws.DefaultHTTPUpgrader = u
			_, _, _, gotErr = ws.UpgradeHTTP(r, w)
			ws.DefaultHTTPUpgrader = old
		} else {
			_, _, _, gotErr = u.Upgrade(r, w)
		}
		hx.Class(fmt.Sprintf("nohijack/%s/viaUpgradeHTTP=%v", variant, viaDefault))
		hx.NonTrivial(hx.Hash("nohijack", variant, viaDefault, plan.Mode, fmt.Sprint(req.States)), func() interface{} {
			return map[string]interface{}{"upgrader": "http", "writer": variant, "via_UpgradeHTTP": viaDefault, "request": string(raw[:min(len(raw), 200)])}
		})
		code, hdr, body := status()
		fail := func(msg string) {
			t.Fatalf("%s\nwriter: %s viaUpgradeHTTP=%v\nrequest: %q\nerr: %v\nstatus: %d header: %v body: %q\nwritten to the connection: %q", msg, variant, viaDefault, raw, gotErr, code, hdr, body, rec.Bytes())
		}
		switch {
		case gotErr == nil:
			fail("upgrade reported success although the connection could not be hijacked")
		case gotErr != wantErr:
			fail(fmt.Sprintf("returned error is %v, want %v", gotErr, wantErr))
		case rec.Len() != 0 || has101(body) || code == 101:
			fail("bytes reached the connection / a 101 was produced although the hijack failed")
		case code != 500:
			fail("a refused upgrade must be answered with the error status 500 through the ResponseWriter")
		case string(body) != gotErr.Error():
			fail(fmt.Sprintf("body is not the error text %q", gotErr.Error()))
		case hdr.Get("Content-Length") != strconv.Itoa(len(body)):
			fail(fmt.Sprintf("Content-Length %q does not match the %d-byte body", hdr.Get("Content-Length"), len(body)))
		}
		// "with the caller's extra headers"; HTTPUpgrader.Header: "it will be
		// written in any result of handshake"
		if m := missingHeaders(hdr, cfg.ResponseHeaders()); m != "" {
			if hx.Known(sigNoHijackHeader) {
				hx.Exclude(sigNoHijackHeader)
				return
			}
			fail(fmt.Sprintf("configured HTTPUpgrader.Header entry %q is missing from the 500 answered through the ResponseWriter", m))
		}
		if len(cfg.ResponseHeaders()) > 0 {
			hx.Class("nohijack/with-configured-Header")
		}
	})
}

// ---------------------------------------------------------------------------
// deterministic grid: every required header x every state x every spelling,
// every method x every version form, through the package-level entry points
// ws.Upgrade and ws.UpgradeHTTP (zero configuration).

const gridKey = "dGhlIHNhbXBsZSBub25jZQ=="

func runDefault(kind reqgen.Kind, raw []byte) (outcome, bool) {
	if kind == reqgen.Raw {
		rec := tx.NewRec()
		hs, err := ws.Upgrade(tx.RW{Reader: tx.NewSrc(raw, nil), Writer: rec})
		return outcome{err, rec.Bytes(), hs}, true
	}
	r, err := http.ReadRequest(bufio.NewReader(bytes.NewReader(raw)))
	if err != nil {
		return outcome{}, false
	}
	rec := tx.NewRec()
	w := tx.NewHijackable(nil, rec, 0)
	_, _, hs, err := ws.UpgradeHTTP(r, w)
	return outcome{err, rec.Bytes(), hs}, true
}

func gridCase(t *testing.T, kind reqgen.Kind, req *reqgen.Request, counter *int, refused *int) bool {
	*counter++
	if !hx.Mine(*counter) {
		return true
	}
	cfg := &reqgen.Config{Kind: kind}
	v := reqgen.Classify(req, cfg)
	o, ok := runDefault(kind, req.Render())
	hx.Eval()
	if !ok {
		*refused++
		hx.Class("grid:http/refused-by-net/http")
		return true
	}
	record("grid:", req, cfg, &v, "")
	if msg := judge(cfg, &v, nil, o); msg != "" {
		hx.Failf(t, describe(req, cfg, &v), "%s\nerr: %v\nwritten: %q", msg, o.err, o.out)
		return false
	}
	return true
}

// place puts lines into a copy of base (which lacks header h) at the front or at the back.
func place(base *reqgen.Request, lines []reqgen.Line, front bool) *reqgen.Request {
	r := base.Clone()
	if front {
		r.Lines = append(append([]reqgen.Line(nil), lines...), r.Lines...)
	} else {
		r.Lines = append(r.Lines, lines...)
	}
	return r
}

func TestHeaderStateGrid(t *testing.T) {
	n, refused := 0, 0
	for _, kind := range []reqgen.Kind{reqgen.Raw, reqgen.HTTP} {
		for h := reqgen.HeaderID(0); h < reqgen.NumRequired; h++ {
			name := reqgen.RequiredNames[h]
			base := reqgen.Valid("/chat", "example.com", gridKey).Drop(name)
			for i := range base.States {
				base.States[i] = reqgen.Canonical
			}
			good := reqgen.GoodValues(h)
			if h == reqgen.HKey {
				good = []string{gridKey, "AAAAAAAAAAAAAAAAAAAAAA==", "/////////////////////w=="}
			}
			mk := func(nm, lead, val, trail string) reqgen.Line {
				return reqgen.Line{Name: nm, Lead: lead, Value: val, Trail: trail, EOL: "\r\n"}
			}
			try := func(st reqgen.State, lines ...reqgen.Line) bool {
				for _, front := range []bool{true, false} {
					r := place(base, lines, front)
					r.States[h] = st
					if !gridCase(t, kind, r, &n, &refused) {
						return false
					}
				}
				return true
			}
			if !try(reqgen.Absent) {
				return
			}
			// the complete request followed by a would-be blank line made of stray CRs
			for _, cr := range []string{"\r", "\r\r", "\r\r\r"} {
				for _, end := range []string{"\r\n", "\n"} {
					full := reqgen.Valid("/chat", "example.com", gridKey)
					full.Lines = append(full.Lines, reqgen.Line{NoColon: true, Name: cr, EOL: end})
					if !gridCase(t, kind, full, &n, &refused) {
						return
					}
				}
			}
			for ni, nm := range reqgen.NameSpellings(name) {
				for vi, val := range good {
					for _, lead := range reqgen.Pads {
						for _, trail := range reqgen.Pads {
							st := reqgen.Padded
							if lead == " " && trail == "" {
								st = reqgen.CaseVaried
								if ni == 0 && vi == 0 {
									st = reqgen.Canonical
								}
							}
							if !try(st, mk(nm, lead, val, trail)) {
								return
							}
						}
					}
				}
				// a good value followed by stray CR(s): the CR belongs to the value,
				// except the one a bare LF takes as part of the terminator
				for _, val := range good {
					for _, cr := range reqgen.StrayCRs {
						for _, end := range []string{"\r\n", "\n"} {
							ln := mk(nm, " ", val, cr)
							ln.EOL = end
							if !try(reqgen.Wrong, ln) {
								return
							}
						}
					}
				}
				for _, val := range reqgen.WrongValues(h) {
					for _, lead := range []string{" ", "", "\t "} {
						if !try(reqgen.Wrong, mk(nm, lead, val, "")) {
							return
						}
					}
				}
				for _, val := range reqgen.OpenValues(h) {
					if !try(reqgen.Wrong, mk(nm, " ", val, "")) {
						return
					}
				}
			}
			for _, a := range good {
				for _, b := range good {
					if !try(reqgen.DupGood, mk(name, " ", a, ""), mk(strings.ToLower(name), "", b, " ")) {
						return
					}
				}
				for _, b := range reqgen.WrongValues(h) {
					if !try(reqgen.DupMixed, mk(name, " ", a, ""), mk(name, " ", b, "")) || !try(reqgen.DupMixed, mk(name, " ", b, ""), mk(name, " ", a, "")) {
						return
					}
				}
			}
			for _, a := range reqgen.WrongValues(h) {
				for _, b := range reqgen.WrongValues(h) {
					if !try(reqgen.Wrong, mk(name, " ", a, ""), mk(name, " ", b, "")) {
						return
					}
				}
			}
		}
	}
	hx.Part("required header x {absent, every name spelling x good value x lead pad x trail pad, wrong values, open values, duplicated good/mixed/wrong} x {front, back} x {ws.Upgrade, ws.UpgradeHTTP}", int64(n), true)
}

func TestRequestLineGrid(t *testing.T) {
	n, refused := 0, 0
	methods := append([]string{"GET"}, reqgen.BadMethods...)
	var versions []string
	for _, l := range [][]string{reqgen.GoodVersions, reqgen.LowVersions, reqgen.MalformedVersions, reqgen.OpenVersions, reqgen.NotOneVersions} {
		versions = append(versions, l...)
	}
	// every single byte in place of the minor version, of the major version, and after a valid version
	for c := 0x21; c < 0x7f; c++ {
		s := string(rune(c))
		versions = append(versions, "HTTP/1."+s, "HTTP/"+s+".1", "HTTP/1.1"+s, "HTTP/1."+s+"0")
	}
	targets := append(append(append([]string{}, reqgen.Targets...), reqgen.AbsTargets...), reqgen.SpacedTargets...)
	targets = append(targets, "", "\t/ws", "/ws\t")
	for _, kind := range []reqgen.Kind{reqgen.Raw, reqgen.HTTP} {
		for _, m := range methods {
			for _, ver := range versions {
				for ti, target := range targets {
					if ti > 0 && m != "GET" {
						continue
					}
					for _, eol := range []string{"\r\n", "\n"} {
						r := reqgen.Valid(target, "example.com", gridKey)
						r.Method, r.Version, r.LineEOL = m, ver, eol
						if !gridCase(t, kind, r, &n, &refused) {
							return
						}
					}
				}
			}
			r := reqgen.Valid("/", "example.com", gridKey)
			r.Method, r.NoVersion = m, true
			if !gridCase(t, kind, r, &n, &refused) {
				return
			}
		}
	}
	hx.Part("method x version token (tables + every printable byte in the minor/major/suffix position) x target x line end x {ws.Upgrade, ws.UpgradeHTTP}", int64(n), true)
}

// TestExtensionLineGrid: one, two and three Sec-WebSocket-Extensions header
// lines, each line triggering one negotiator behaviour (or being malformed),
// for both upgraders: an objection in any line must fail the handshake with
// that objection's status (500 for a plain error or a rejection without
// status), whatever the later lines do.
func TestExtensionLineGrid(t *testing.T) {
	policies := map[string]reqgen.ExtPolicy{
		"ext-acc":  {Act: reqgen.ExtAcceptAll},
		"ext-bare": {Act: reqgen.ExtAcceptBare},
		"ext-dec":  {Act: reqgen.ExtDecline},
		"ext-err":  {Act: reqgen.ExtPlainError, Reason: "negotiation failed"},
		"ext-rej":  {Act: reqgen.ExtReject, Status: 403, Reason: "extension forbidden", Headers: []reqgen.HeaderKV{{Name: "X-Reject-Why", Value: "a"}}},
		"ext-rej0": {Act: reqgen.ExtReject, Status: 0, Reason: "rejected without a status", Headers: []reqgen.HeaderKV{{Name: "X-Reject-Why", Value: "b c"}, {Name: "X-Rej-B", Value: "120"}}},
		"ext-rej1": {Act: reqgen.ExtReject, Status: 0},
		"ext-e1":   {Act: reqgen.ExtPlainError, ErrKind: reqgen.ErrSlice, Reason: "field a: bad; field b: bad"},
		"ext-e2":   {Act: reqgen.ExtPlainError, ErrKind: reqgen.ErrMap, Reason: "map error"},
		"ext-e3":   {Act: reqgen.ExtPlainError, ErrKind: reqgen.ErrFunc, Reason: "func error"},
		"ext-e4":   {Act: reqgen.ExtPlainError, ErrKind: reqgen.ErrSliceStruct, Reason: "struct with slice"},
		"ext-e5":   {Act: reqgen.ExtPlainError, ErrKind: reqgen.ErrTypedNil},
		"ext-e6":   {Act: reqgen.ExtPlainError, ErrKind: reqgen.ErrValueStruct, Reason: "struct value"},
		"ext-e7":   {Act: reqgen.ExtPlainError, ErrKind: reqgen.ErrWrapped, Reason: "wrapped"},
		"ext-307":  {Act: reqgen.ExtReject, Status: 307, Reason: "moved", Headers: []reqgen.HeaderKV{{Name: "Location", Value: "https://example.com/ws"}}},
		"ext-300":  {Act: reqgen.ExtReject, Status: 300},
		"ext-599":  {Act: reqgen.ExtReject, Status: 599, Reason: "odd but legal"},
		"ext-200":  {Act: reqgen.ExtReject, Status: 200, Reason: "not promised"},
		"ext-pct":  {Act: reqgen.ExtReject, Status: 404, Reason: "no %2Fadmin for you, 100% denied %zz %"},
		"ext-fmt":  {Act: reqgen.ExtPlainError, Reason: "%s%s%s %d %!"},
	}
	values := []string{"ext-acc; p=1", "ext-bare; q", "ext-dec", "ext-unknown; p", "ext-err", "ext-rej; p=1", "ext-rej0", "ext-rej1",
		"ext-acc, ext-err", "ext-rej, ext-acc", "ext-pct", "ext-fmt", "ext-e1", "ext-e2", "ext-e3", "ext-e4", "ext-e5", "ext-e6", "ext-e7", "ext-307", "ext-300", "ext-599", "ext-200", "ext-acc; =1", "ext-acc; p=\"1\"", ""}
	n := 0
	var walk func(kind reqgen.Kind, mode reqgen.ExtMode, lines []string, depth int) bool
	walk = func(kind reqgen.Kind, mode reqgen.ExtMode, lines []string, depth int) bool {
		if len(lines) > 0 {
			n++
			if hx.Mine(n) {
				req := reqgen.Valid("/chat", "example.com", gridKey)
				for _, l := range lines {
					req.Add(reqgen.NameExtensions, l)
				}
				cfg := &reqgen.Config{Kind: kind, ExtMode: mode, Ext: policies, HeaderForm: reqgen.HeaderHTTP, Header: []reqgen.HeaderKV{{Name: "X-Srv-A", Value: "a"}}}
				v := reqgen.Classify(req, cfg)
				var o outcome
				var built *reqgen.Built
				ok := true
				if kind == reqgen.Raw {
					var u ws.Upgrader
					u, built = cfg.Upgrader()
					o = runRaw(u, req.Render(), transport{})
				} else {
					var u ws.HTTPUpgrader
					u, built = cfg.HTTPUpgrader()
					o, ok = runHTTP(u, req.Render(), 0)
				}
				hx.Eval()
				if ok {
					record("grid:", req, cfg, &v, "")
					if msg := judge(cfg, &v, built, o); msg != "" {
						hx.Failf(t, describe(req, cfg, &v), "%s\nerr: %v\nwritten: %q", msg, o.err, o.out)
						return false
					}
				}
			}
		}
		if depth == 0 {
			return true
		}
		for _, val := range values {
			if depth == 1 && len(lines) == 2 && len(val) > 8 && val != "ext-acc; =1" {
				continue // third line: the short alphabet is enough
			}
			if !walk(kind, mode, append(append([]string(nil), lines...), val), depth-1) {
				return false
			}
		}
		return true
	}
	for _, kind := range []reqgen.Kind{reqgen.Raw, reqgen.HTTP} {
		for _, mode := range []reqgen.ExtMode{reqgen.ExtNegotiate, reqgen.ExtSelector, reqgen.ExtNone} {
			if !walk(kind, mode, nil, 3) {
				return
			}
		}
	}
	hx.Part("1-3 Sec-WebSocket-Extensions lines x {accept, accept bare, decline, unknown, plain error, reject(403), reject(no status) with/without headers, lists, malformed} x {Negotiate, Extension, none} x {ws.Upgrader, ws.HTTPUpgrader}", int64(n), true)
}

// TestCustomHooksGrid: ProtocolCustom / ExtensionCustom alone and together
// with the Protocol / Extension selectors they replace ("if ...Custom is set,
// it used instead of ..."), over one and two header lines.
func TestCustomHooksGrid(t *testing.T) {
	n := 0
	run := func(req *reqgen.Request, cfg *reqgen.Config) bool {
		n++
		v := reqgen.Classify(req, cfg)
		u, built := cfg.Upgrader()
		o := runRaw(u, req.Render(), transport{})
		hx.Eval()
		record("grid:", req, cfg, &v, "")
		if msg := judge(cfg, &v, built, o); msg != "" {
			hx.Failf(t, describe(req, cfg, &v), "%s\nmodel: %s\nconfig: %+v\nerr: %v\nwritten: %q", msg, v, *cfg, o.err, o.out)
			return false
		}
		return true
	}
	protoValues := []string{"chat", "chat, superchat", "superchat,chat", "mqtt, chat, soap", "soap", "chat,\tsuperchat", "", "chat,,superchat", "ch@t", "\"chat\""}
	accepts := [][]string{nil, {"chat"}, {"superchat"}, {"chat", "superchat"}, {"soap", "mqtt"}}
	for _, mode := range []reqgen.ProtoCustomMode{reqgen.ProtoCustomLast, reqgen.ProtoCustomFixed} {
		for _, custom := range accepts {
			for si, sel := range append([][]string{nil}, accepts...) {
				for _, a := range protoValues {
					for _, b := range append([]string{"\x00none"}, protoValues...) {
						req := reqgen.Valid("/chat", "example.com", gridKey).Add(reqgen.NameProtocol, a)
						if b != "\x00none" {
							req.Add(reqgen.NameProtocol, b)
						}
						cfg := &reqgen.Config{Kind: reqgen.Raw, ProtoCustom: mode, CustomProtocols: custom, HasProtocol: si > 0, Protocols: sel}
						if !run(req, cfg) {
							return
						}
					}
				}
			}
		}
	}
	policies := map[string]reqgen.ExtPolicy{"x-a": {Act: reqgen.ExtAcceptAll}, "x-b": {Act: reqgen.ExtAcceptFirst}, "x-c": {Act: reqgen.ExtAcceptBare}, "x-d": {Act: reqgen.ExtDecline}}
	extValues := []string{"x-a", "x-a; p=1; q", "x-b; p=1; q=2", "x-c; p=1", "x-d; p", "x-e", "x-d, x-a; q, x-b", "x-a;\tp", "x-a; p=\"1\"", "", "x-a,,x-b"}
	for _, also := range []bool{false, true} {
		for _, a := range extValues {
			for _, b := range append([]string{"\x00none"}, extValues...) {
				req := reqgen.Valid("/chat", "example.com", gridKey).Add(reqgen.NameExtensions, a)
				if b != "\x00none" {
					req.Add(reqgen.NameExtensions, b)
				}
				cfg := &reqgen.Config{Kind: reqgen.Raw, ExtMode: reqgen.ExtCustom, Ext: policies, ExtSelectorAlso: also}
				if !run(req, cfg) {
					return
				}
			}
		}
	}
	hx.Part("ProtocolCustom {last accepted, fixed} x custom accept set x Protocol selector {unset, 5 sets} x 1-2 protocol lines; ExtensionCustom x Extension {unset, set} x 1-2 extension lines (ws.Upgrader)", int64(n), true)
}

// TestEarlyEmptyLine: the head ends at the first empty line ("\r" followed by
// a bare LF is one); header-looking lines after it are not part of the
// request and must not influence the answer.
func TestEarlyEmptyLine(t *testing.T) {
	n := 0
	later := [][2]string{{reqgen.NameExtensions, "x-a; p=1"}, {reqgen.NameProtocol, "chat"}, {reqgen.NameKey, "AAAAAAAAAAAAAAAAAAAAAA=="}, {reqgen.NameUpgrade, "h2c"}, {"X-Extra", "1"}}
	for _, kind := range []reqgen.Kind{reqgen.Raw, reqgen.HTTP} {
		for _, mode := range []reqgen.ExtMode{reqgen.ExtNone, reqgen.ExtSelector, reqgen.ExtNegotiate, reqgen.ExtCustom} {
			for _, blank := range []reqgen.Line{{NoColon: true, Name: "\r", EOL: "\n"}, {NoColon: true, Name: "", EOL: "\n"}, {NoColon: true, Name: "", EOL: "\r\n"}} {
				for _, l := range later {
					req := reqgen.Valid("/chat", "example.com", gridKey).Add(reqgen.NameExtensions, "x-a")
					req.Lines = append(req.Lines, blank)
					req.Add(l[0], l[1])
					cfg := &reqgen.Config{Kind: kind, ExtMode: mode, Ext: map[string]reqgen.ExtPolicy{"x-a": {Act: reqgen.ExtAcceptAll}}, HasProtocol: true, Protocols: []string{"chat"},
						OnHeader: reqgen.Outcome{Kind: reqgen.CbError, Reason: "no extra headers"}}
					v := reqgen.Classify(req, cfg)
					var o outcome
					var built *reqgen.Built
					ok := true
					if kind == reqgen.Raw {
						var u ws.Upgrader
						u, built = cfg.Upgrader()
						o = runRaw(u, req.Render(), transport{})
					} else {
						var u ws.HTTPUpgrader
						u, built = cfg.HTTPUpgrader()
						o, ok = runHTTP(u, req.Render(), 0)
					}
					n++
					hx.Eval()
					if !ok {
						continue
					}
					record("grid:", req, cfg, &v, "")
					if msg := judge(cfg, &v, built, o); msg != "" {
						hx.Failf(t, describe(req, cfg, &v), "%s\nmodel: %s\nerr: %v\nwritten: %q", msg, v, o.err, o.out)
						return
					}
				}
			}
		}
	}
	hx.Part("early empty line x header-looking line after it x extension mode x {ws.Upgrader, ws.HTTPUpgrader}", int64(n), true)
}

// TestRejectionWithoutStatus: every callback rejecting with
// ws.RejectConnectionError that carries no ws.RejectionStatus (reason and/or
// headers only): the answer must be a well-formed 500 with the reason as body
// and the rejection headers.
func TestRejectionWithoutStatus(t *testing.T) {
	n := 0
	hdrs := [][]reqgen.HeaderKV{nil, {{Name: "Location", Value: "https://example.com/elsewhere"}}, {{Name: "X-Reject-Why", Value: "a"}, {Name: "Retry-After", Value: "120"}}}
	for _, reason := range append([]string{"", "no", "a longer reason text for the body"}, reqgen.HostileReasons...) {
		for _, h := range hdrs {
			for _, st := range []int{0, 401, 503, -1, 300, 301, 302, 303, 305, 307, 308, 399, 400, 426, 499, 500, 599, 100, 200, 204, 304, 600} {
				for cb := 0; cb < 4; cb++ {
					out := reqgen.Outcome{Kind: reqgen.CbReject, Status: st, Reason: reason, Headers: h}
					if st < 0 { // plain error with the same text: every kind of error value in turn
						out = reqgen.Outcome{Kind: reqgen.CbError, Reason: reason, ErrKind: reqgen.ErrValueKind(n % int(reqgen.NumErrValueKinds))}
					}
					cfg := &reqgen.Config{Kind: reqgen.Raw, HeaderForm: reqgen.HeaderString, Header: []reqgen.HeaderKV{{Name: "X-Srv-A", Value: "a"}}}
					switch cb {
					case 0:
						cfg.OnRequest = out
					case 1:
						cfg.OnHost = out
					case 2:
						cfg.OnHeader = out
					case 3:
						cfg.OnBeforeUpgrade = out
					}
					req := reqgen.Valid("/chat", "example.com", gridKey).Add("Origin", "http://example.com")
					v := reqgen.Classify(req, cfg)
					u, built := cfg.Upgrader()
					o := runRaw(u, req.Render(), transport{})
					n++
					hx.Eval()
					record("grid:", req, cfg, &v, "")
					if v.Kind != reqgen.MustFail {
						hx.Failf(t, describe(req, cfg, &v), "model does not call a rejecting callback must-fail: %s", v)
						return
					}
					if msg := judge(cfg, &v, built, o); msg != "" {
						hx.Failf(t, describe(req, cfg, &v), "%s\nerr: %v\nwritten: %q", msg, o.err, o.out)
						return
					}
				}
			}
		}
	}
	hx.Part("callback x {rejection without status, 401, 503, plain error} x reason (plain and format/framing-hostile texts) x rejection headers (ws.Upgrader)", int64(n), true)
}

// TestModelTables pins the model's reading of the spelling tables, so that a
// table entry that drifts into another class is noticed.
func TestModelTables(t *testing.T) {
	cfg := &reqgen.Config{Kind: reqgen.Raw}
	for h := reqgen.HeaderID(0); h < reqgen.NumRequired; h++ {
		name := reqgen.RequiredNames[h]
		check := func(vals []string, want reqgen.VerdictKind) {
			for _, val := range vals {
				r := reqgen.Valid("/", "example.com", gridKey).Set(name, val)
				if v := reqgen.Classify(r, cfg); v.Kind != want {
					t.Errorf("%s: %q classified %v, table says %v", name, val, v, want)
				}
			}
		}
		check(reqgen.GoodValues(h), reqgen.MustSucceed)
		check(reqgen.WrongValues(h), reqgen.MustFail)
		check(reqgen.OpenValues(h), reqgen.Open)
	}
	for _, ver := range reqgen.GoodVersions {
		if k, ma, mi := reqgen.ParseVersion(ver); k != reqgen.VersionOK || ma != 1 || mi < 1 {
			t.Errorf("good version %q: %v %d.%d", ver, k, ma, mi)
		}
	}
	for _, ver := range reqgen.LowVersions {
		if k, ma, mi := reqgen.ParseVersion(ver); k != reqgen.VersionOK || (ma == 1 && mi >= 1) {
			t.Errorf("low version %q: %v %d.%d", ver, k, ma, mi)
		}
	}
	for _, ver := range reqgen.MalformedVersions {
		if k, _, _ := reqgen.ParseVersion(ver); k != reqgen.VersionMalformed {
			t.Errorf("malformed version %q: %v", ver, k)
		}
	}
	for _, ver := range reqgen.NotOneVersions {
		if k, _, _ := reqgen.ParseVersion(ver); k != reqgen.VersionMajorNotOne {
			t.Errorf("version %q (major is not 1): %v", ver, k)
		}
	}
	for _, ver := range reqgen.OpenVersions {
		if k, _, _ := reqgen.ParseVersion(ver); k != reqgen.VersionLeadingZero && k != reqgen.VersionHuge {
			t.Errorf("open version %q: %v", ver, k)
		}
	}
	if reqgen.AcceptKey(gridKey) != "s3pPLMBiTxaQ9kYGzzhZRbK+xOo=" { // RFC 6455 §1.3 example
		t.Errorf("AcceptKey does not reproduce the RFC example")
	}
}

// ---------------------------------------------------------------------------
// known findings

func TestKnownFindings(t *testing.T) {
	// C09/request-version-nondigit: asciiToInt took 0x3A-0x3F as digits, so
	// "HTTP/1.:" was read as HTTP/1.10 and the request was upgraded.
	var accepted []string
	for _, ver := range []string{"HTTP/1.:", "HTTP/1.;", "HTTP/1.<", "HTTP/1.=", "HTTP/1.>", "HTTP/1.?", "HTTP/1.:0", "HTTP/1.1:", "HTTP/:.1", "HTTP/1./"} {
		r := reqgen.Valid("/", "example.com", gridKey)
		r.Version = ver
		o, _ := runDefault(reqgen.Raw, r.Render())
		hx.Eval()
		if o.err == nil || has101(o.out) {
			accepted = append(accepted, ver)
		}
	}
	hx.Probe(t, "C09/request-version-nondigit",
		fmt.Sprintf("Upgrader.Upgrade accepted request version token(s) %q containing non-digit bytes", accepted),
		len(accepted) > 0, map[string]interface{}{"request": string(reqgen.Valid("/", "example.com", gridKey).Render()), "version_tokens_accepted": accepted})

	// C09/upgrade-value-unicode-fold (fixed in /repo 20e9951)
	probeUnicodeFold(t)

	// C09/not-hijackable-response-omits-header
	probeNoHijackHeader(t)

	// closed by the clause audit
	probeHTTP2(t)
	probeHTList(t)
}

func probeUnicodeFold(t *testing.T) {
	var accepted []string
	for _, kind := range []reqgen.Kind{reqgen.Raw, reqgen.HTTP} {
		for _, val := range []string{"web\u017focket", "websoc\u212aet", "WEB\u017fOC\u212aET"} {
			r := reqgen.Valid("/", "example.com", gridKey).Set(reqgen.NameUpgrade, val)
			o, ok := runDefault(kind, r.Render())
			hx.Eval()
			if ok && (o.err == nil || has101(o.out)) {
				accepted = append(accepted, fmt.Sprintf("%s:%q", kind, val))
			}
		}
	}
	hx.Probe(t, sigUnicodeFold,
		fmt.Sprintf("request with an Upgrade value that is not websocket in any letter case but matches under Unicode case folding is upgraded (101): %v", accepted),
		len(accepted) > 0, map[string]interface{}{"request": string(reqgen.Valid("/", "example.com", gridKey).Set(reqgen.NameUpgrade, "web\u017focket").Render()), "accepted": accepted})
}

// ---------------------------------------------------------------------------
// native fuzz target: bytes -> request; unconditional invariants only.

type headLine struct{ name, value string }

// scanHead is a deliberately simple reading of the bytes as an HTTP head:
// lines end in LF (one CR before it dropped), the first is the request line,
// the head ends at the first empty line; name and value are split at the first
// colon and stripped of SP/HT.
func scanHead(data []byte) (reqLine string, lines []headLine, complete bool) {
	rest := data
	first := true
	for {
		i := bytes.IndexByte(rest, '\n')
		if i < 0 {
			return reqLine, lines, false
		}
		l := rest[:i]
		rest = rest[i+1:]
		if len(l) > 0 && l[len(l)-1] == '\r' {
			l = l[:len(l)-1]
		}
		if first {
			reqLine, first = string(l), false
			continue
		}
		if len(l) == 0 {
			return reqLine, lines, true
		}
		if c := bytes.IndexByte(l, ':'); c >= 0 {
			lines = append(lines, headLine{reqgen.TrimBlanks(string(l[:c])), reqgen.TrimBlanks(string(l[c+1:]))})
		}
	}
}

func asciiFoldEq(a, b string) bool {
	if len(a) != len(b) {
		return false
	}
	for i := 0; i < len(a); i++ {
		x, y := a[i], b[i]
		if 'A' <= x && x <= 'Z' {
			x += 32
		}
		if 'A' <= y && y <= 'Z' {
			y += 32
		}
		if x != y {
			return false
		}
	}
	return true
}

func hasControlByte(data []byte) bool {
	for _, c := range data {
		if (c < 0x20 && c != '\r' && c != '\n' && c != '\t') || c == 0x7f {
			return true
		}
	}
	return false
}

// lenient101 reads out as `HTTP/1.x 101 ...` CRLF header lines CRLF CRLF with
// nothing after the first empty line, and returns the accept values.
func lenient101(out []byte) (accept []string, ok bool) {
	end := bytes.Index(out, []byte("\r\n\r\n"))
	if end < 0 || end+4 != len(out) {
		return nil, false
	}
	lines := strings.Split(string(out[:end]), "\r\n")
	f := strings.SplitN(lines[0], " ", 3)
	if len(f) < 2 || !strings.HasPrefix(f[0], "HTTP/1.") || f[1] != "101" {
		return nil, false
	}
	for _, l := range lines[1:] {
		c := strings.IndexByte(l, ':')
		if c <= 0 {
			return nil, false
		}
		if asciiFoldEq(l[:c], "Sec-WebSocket-Accept") {
			accept = append(accept, reqgen.TrimBlanks(l[c+1:]))
		}
	}
	return accept, true
}

func fuzzConfig(kind reqgen.Kind, data []byte) *reqgen.Config {
	sel := 0
	for _, b := range data {
		sel = (sel*31 + int(b)) & 0xffff
	}
	return &reqgen.Config{
		Kind: kind, ReadBuf: reqgen.BufSizes[sel%4], WriteBuf: reqgen.BufSizes[(sel/4)%4],
		HasProtocol: true, Protocols: []string{"chat", "v1.proto"},
		ExtMode: reqgen.ExtMode((sel / 16) % 3),
		Ext:     map[string]reqgen.ExtPolicy{"x-a": {Act: reqgen.ExtAcceptAll}, "permessage-deflate": {Act: reqgen.ExtAcceptFirst}, "x-b": {Act: reqgen.ExtDecline}},
	}
}

// fuzzInvariants returns "" when the unconditional part of the property holds.
func fuzzInvariants(data []byte) string {
	reqLine, lines, complete := scanHead(data)
	var keys []string
	seen := map[string]bool{}
	for _, l := range lines {
		for _, n := range reqgen.RequiredNames {
			if asciiFoldEq(l.name, n) {
				seen[n] = true
			}
		}
		if asciiFoldEq(l.name, reqgen.NameKey) && len(l.value) == 24 {
			keys = append(keys, l.value)
		}
	}
	check101 := func(who string, o outcome, keys []string) string {
		if o.err != nil {
			if has101(o.out) {
				return fmt.Sprintf("%s: failure (%v) but a 101 response was written: %q", who, o.err, o.out)
			}
			return ""
		}
		var acc []string
		p, err := parseResponse(o.out)
		switch {
		case err == nil && (p.status != 101 || len(p.rest)+len(p.body) != 0):
			return fmt.Sprintf("%s: success reported but the bytes written are not exactly one 101 response: %q", who, o.out)
		case err == nil:
			acc = p.hdr.Values("Sec-Websocket-Accept")
		case hasControlByte(data):
			// An accepted extension echoes the client's parameters; a control
			// byte inside a quoted parameter value comes back escaped by
			// httphead's writer, which net/http refuses to read. That is the
			// open class "quoted/escaped option values" of a dependency: fall
			// back to a line-level reading of the 101 head.
			var ok bool
			if acc, ok = lenient101(o.out); !ok {
				return fmt.Sprintf("%s: success reported but the bytes written are not exactly one 101 response head: %q", who, o.out)
			}
		default:
			return fmt.Sprintf("%s: success reported but the bytes written do not parse as an HTTP response (%v): %q", who, err, o.out)
		}
		for _, k := range keys {
			if len(acc) == 1 && reqgen.AcceptKey(k) == acc[0] {
				return ""
			}
		}
		return fmt.Sprintf("%s: accept %q does not belong to any 24-character key of the request %q", who, acc, keys)
	}

	// ws.Upgrader
	cfg := fuzzConfig(reqgen.Raw, data)
	u, _ := cfg.Upgrader()
	var chunks []int
	if n := len(data); n > 0 && data[n-1]%3 != 0 {
		chunks = []int{1 + int(data[n-1]%23)}
	}
	o := runRaw(u, data, transport{Chunks: chunks})
	if msg := check101("Upgrader", o, keys); msg != "" {
		return msg
	}
	if o.err == nil {
		if !complete {
			return "Upgrader: success on a request head that never ends in an empty line"
		}
		f := strings.Split(reqLine, " ")
		if len(f) < 3 || f[0] != "GET" {
			return fmt.Sprintf("Upgrader: success for request line %q (method is not GET)", reqLine)
		}
		k, major, minor := reqgen.ParseVersion(strings.Join(f[2:], " "))
		if k == reqgen.VersionMalformed || k == reqgen.VersionMajorNotOne || (k != reqgen.VersionHuge && (major != 1 || minor < 1)) {
			return fmt.Sprintf("Upgrader: success for request line %q (version is not HTTP/1.x, x >= 1, in digits)", reqLine)
		}
		for _, n := range reqgen.RequiredNames {
			if !seen[n] {
				return fmt.Sprintf("Upgrader: success for a request without %s", n)
			}
		}
	}

	// ws.HTTPUpgrader, when net/http can read the bytes
	r, err := http.ReadRequest(bufio.NewReader(bytes.NewReader(data)))
	if err != nil {
		return ""
	}
	hcfg := fuzzConfig(reqgen.HTTP, data)
	hu, _ := hcfg.HTTPUpgrader()
	ho, _ := runHTTP(hu, data, hcfg.WriteBuf)
	var hkeys []string
	if k := r.Header["Sec-Websocket-Key"]; len(k) > 0 {
		hkeys = k[:1]
	}
	if msg := check101("HTTPUpgrader", ho, hkeys); msg != "" {
		return msg
	}
	if ho.err == nil && (r.Method != "GET" || len(hkeys) == 0 || len(hkeys[0]) != 24 || r.ProtoMajor < 1 || (r.ProtoMajor == 1 && r.ProtoMinor < 1)) {
		return fmt.Sprintf("HTTPUpgrader: success for method %q proto %s key %q", r.Method, r.Proto, hkeys)
	}
	return ""
}

func fuzzSeeds() [][]byte {
	v := reqgen.Valid("/chat", "example.com", gridKey)
	var out [][]byte
	add := func(r *reqgen.Request) { out = append(out, r.Render()) }
	add(v)
	add(v.Clone().Add(reqgen.NameProtocol, "superchat, chat").Add(reqgen.NameExtensions, "permessage-deflate; client_max_window_bits, x-a; p=1"))
	for _, ver := range []string{"HTTP/1.0", "HTTP/1.:", "HTTP/1.10", "HTTP/2.0", "HTTP/1.01", "HTTP/18446744073709551617.1", "HTTP/1.18446744073709551617"} {
		r := v.Clone()
		r.Version = ver
		add(r)
	}
	r := v.Clone()
	r.Method = "POST"
	add(r)
	for h := reqgen.HeaderID(0); h < reqgen.NumRequired; h++ {
		add(v.Clone().Drop(reqgen.RequiredNames[h]))
		if w := reqgen.WrongValues(h); len(w) > 0 {
			add(v.Clone().Set(reqgen.RequiredNames[h], w[0]))
		}
	}
	lf := v.Clone()
	lf.LineEOL, lf.EndEOL = "\n", "\n"
	for i := range lf.Lines {
		lf.Lines[i].EOL = "\n"
		lf.Lines[i].Name = strings.ToLower(lf.Lines[i].Name)
		lf.Lines[i].Lead = "\t "
	}
	add(lf)
	add(v.Clone().Set(reqgen.NameConnection, "keep-alive,\tUpgrade"))
	for _, name := range []string{reqgen.NameKey, reqgen.NameVersion, reqgen.NameUpgrade} {
		cr := v.Clone()
		for i := range cr.Lines {
			if cr.Lines[i].Name == name {
				cr.Lines[i].Trail = "\r"
			}
		}
		add(cr)
	}
	for _, target := range []string{"/chat room", " /ws", "/ws ", "/ws HTTP/1.0"} {
		sp := v.Clone()
		sp.Target = target
		add(sp)
	}
	crEnd := v.Clone()
	crEnd.Lines = append(crEnd.Lines, reqgen.Line{NoColon: true, Name: "\r", EOL: "\r\n"})
	add(crEnd)
	add(v.Clone().Add(reqgen.NameKey, "AAAAAAAAAAAAAAAAAAAAAA=="))
	add(v.Clone().Add(reqgen.NameExtensions, "x-a; p=\"a\\\"b\", x-b"))
	// found by the native fuzzer: a control byte inside a quoted extension parameter is echoed (escaped) into the 101
	out = append(out, []byte("GET 0 HTTP/1.10\nHost:0\nUpgrade: weBsocket \nConneCtion:Upgrade\nSeC-WebSoCket-Version: 13\nSeC-WeBSoCket-KeY:100012020120101000002000\nSeC-WeBSoCket-EXtensions: x-a;0=\"\b1\"0\n\n"))
	out = append(out, v.Render()[:60], []byte("GET / HTTP/1.1\r\n\r\n"), []byte("\r\n\r\n"), nil)
	return out
}

func FuzzUpgrade(f *testing.F) {
	for _, s := range fuzzSeeds() {
		f.Add(s)
	}
	f.Fuzz(func(t *testing.T, data []byte) {
		if len(data) > 1<<16 {
			return
		}
		if msg := fuzzInvariants(data); msg != "" {
			t.Fatalf("%s\ninput: %q", msg, data)
		}
	})
}

// TestFuzzInvariantsOnGenerated runs the fuzz target's oracle over generated
// requests too, so that it is exercised (and counted) in every tier.
func TestFuzzInvariantsOnGenerated(t *testing.T) {
	hx.Check(t, 3, func(t *rapid.T) {
		plan := reqgen.GenPlan(t, "plan", reqgen.Raw)
		req := reqgen.GenRequest(t, "req", plan)
		raw := req.Render()
		if rapid.IntRange(0, 3).Draw(t, "mutate") == 0 && len(raw) > 0 {
			i := rapid.IntRange(0, len(raw)-1).Draw(t, "at")
			raw[i] = rapid.Byte().Draw(t, "byte")
		}
		hx.Eval()
		hx.Class("fuzz-oracle/generated")
		if msg := fuzzInvariants(raw); msg != "" {
			t.Fatalf("%s\ninput: %q", msg, raw)
		}
	})
}
