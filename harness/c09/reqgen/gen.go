package reqgen

import (
	"strings"

	"pgregory.net/rapid"
)

// ---------------------------------------------------------------------------
// spelling tables (also used by deterministic enumerations)

// GoodMethods / BadMethods: only the exact token GET is compliant.
var (
	BadMethods = []string{"get", "Get", "POST", "HEAD", "PUT", "OPTIONS", "GETX", "GE", "CONNECT"}

	// GoodVersions are "HTTP/1.1 (or a later 1.x)".
	GoodVersions = []string{"HTTP/1.1", "HTTP/1.2", "HTTP/1.9", "HTTP/1.10", "HTTP/1.11", "HTTP/1.65535", "HTTP/1.4294967297", "HTTP/1.999999999999999999"}
	// LowVersions are well-formed versions the property refuses with 505
	// (for ws.HTTPUpgrader majors >= 2 are open).
	LowVersions = []string{"HTTP/1.0", "HTTP/0.9", "HTTP/0.1", "HTTP/2.0", "HTTP/2.1", "HTTP/3.0", "HTTP/10.1", "HTTP/0.0"}
	// MalformedVersions are not HTTP versions at all. The first six are the
	// 0x3A-0x3F class of the fixed finding C09/request-version-nondigit.
	MalformedVersions = []string{"HTTP/1.:", "HTTP/1.;", "HTTP/1.<", "HTTP/1.=", "HTTP/1.>", "HTTP/1.?",
		"HTTP/:.1", "HTTP/1.1:", "HTTP/1.:0", "http/1.1", "HTTP/1", "HTTP/1.1x", "HTTP/1.", "HTTP/.1", "HTTP/11",
		"HTTP/1.1.1", "HTTP/1,1", "HTTP/x.1", "HTTP/1.-1", "HTTP/1.+1", "HTTPS/1.1", "HTTP/1.1/", "HTTP-1.1", "HTTP/1.a",
		"HTTP/1.\x7f", "HTTP/1./", "1.1", "HTTP/", "HTTP/1.1\r", "HTTP/1.1\r\r", "HTTP/1.1\t", "HTTP/1.1 ", "HTTP/1.1 x", "HTTP/1.0 HTTP/1.1"}
	// OpenVersions: leading zeros and numbers too long for an int.
	// (a minor number too long for an int is mathematically a later 1.x, which
	// the unchanged library refuses as malformed: left open)
	OpenVersions = []string{"HTTP/1.01", "HTTP/01.1", "HTTP/1.00", "HTTP/001.001", "HTTP/1.99999999999999999999",
		"HTTP/1.18446744073709551617", "HTTP/1.36893488147419103233", "HTTP/1.9223372036854775809", "HTTP/1.184467440737095516161", "HTTP/1.018446744073709551617"}
	// NotOneVersions: the major numeral is not 1 but is congruent to 1 modulo
	// 2^64 or 2^63 (k*2^64+1 for k = 1, 2, 3, 10; 2^63+1), or 2^32+1, with and
	// without leading zeros and huge minors: must-fail for ws.Upgrader.
	NotOneVersions = []string{"HTTP/18446744073709551617.1", "HTTP/36893488147419103233.1", "HTTP/55340232221128654849.1", "HTTP/184467440737095516161.1",
		"HTTP/9223372036854775809.1", "HTTP/018446744073709551617.1", "HTTP/0018446744073709551617.01", "HTTP/4294967297.1", "HTTP/04294967297.1",
		"HTTP/18446744073709551617.18446744073709551617", "HTTP/18446744073709551617.2", "HTTP/36893488147419103233.10", "HTTP/02.1", "HTTP/00.1", "HTTP/010.1",
		"HTTP/99999999999999999999.1", "HTTP/9223372036854775808.1", "HTTP/18446744073709551616.1", "HTTP/1000000001.1"}

	// SpacedTargets make the request line something else than
	// `METHOD SP target SP version`: more than three fields, doubled, leading
	// or trailing spaces around the target (must-fail for ws.Upgrader).
	SpacedTargets = []string{"/chat room", " /ws", "/ws ", "/ws HTTP/1.0", "/ws  ", " ", "  ", "/a b c", "/ws HTTP/1.1", "/ws\t x"}
	// StrayCRs are put between a value (or nothing) and the line terminator.
	StrayCRs = []string{"\r", "\r\r", " \r", "\r "}

	Targets    = []string{"/", "/chat?x=1", "*", "/a/b%20c", "/ws/"}
	AbsTargets = []string{"ws://example.com/chat", "http://example.com/"}

	Hosts = []string{"example.com", "example.com:8080", "[::1]:80", "localhost", "a", "EXAMPLE.com."}

	// Pads are the blank runs put around values; the canonical line uses Lead " " and Trail "".
	Pads = []string{"", " ", "  ", "\t", " \t", "\t ", "\t\t", "   \t  "}

	protoVocab = []string{"chat", "superchat", "v1.proto", "mqtt", "Chat", "x-y_z", "soap"}
	extVocab   = []string{"permessage-deflate", "x-a", "x-b", "x-webkit-deflate-frame"}
	paramKeys  = []string{"client_max_window_bits", "server_no_context_takeover", "server_max_window_bits", "p", "q"}
	paramVals  = []string{"", "", "10", "15", "abc", "1"}

	rejectStatuses = []int{401, 403, 404, 503}
	// rejectStatusesOr0 adds the rejection built without ws.RejectionStatus
	// (Status 0): it carries no chosen status, so the answer is 500.
	// and the whole range a rejection may choose: redirects (3xx, with a
	// Location header), the edges 300, 399, 400, 499, 500, 599, and a few
	// numbers nothing is promised for (100, 200, 204, 304, 600: open).
	rejectStatusesOr0 = []int{401, 403, 404, 503, 0, 0, 300, 301, 302, 303, 305, 307, 308, 399, 400, 418, 451, 499, 500, 501, 599, 307, 302,
		100, 200, 204, 304, 600}
)

var goodValues = [NumRequired][]string{
	HHost:    Hosts,
	HUpgrade: {"websocket", "WebSocket", "WEBSOCKET", "webSocket", "Websocket"},
	HConnection: {"Upgrade", "upgrade", "UPGRADE", "uPgRaDe", "keep-alive, Upgrade", "Upgrade, keep-alive", "a,Upgrade,b", "keep-alive ,  upgrade", "keep-alive,Upgrade", "close, x, y, UPGRADE", "Upgrade,Upgrade",
		// empty list members and HT as list blank (RFC 7230 #rule, OWS = SP / HTAB)
		",Upgrade", "Upgrade,", "keep-alive,,Upgrade", " , ,upgrade", "Upgrade\t,keep-alive", "keep-alive,\tUpgrade", "keep-alive\t,\tUPGRADE", "a,\t \tupgrade\t ,b"},
	HVersion: {"13"},
	HKey:     nil, // drawn
}

var wrongValues = [NumRequired][]string{
	HHost: nil, // "carrying Host": there is no wrong value (the empty one is open)
	HUpgrade: {"websocket2", "h2c", "", "web socket", "websocke", "xwebsocket", "websocket/13", "websockets", "TLS/1.0", "web-socket", "websock\xc3\xa9t",
		"web\xc5\xbfocket", "websoc\xe2\x84\xaaet", "WEB\xc5\xbfOC\xe2\x84\xaaET", // these three: Unicode-fold-only matches (finding C09/upgrade-value-unicode-fold)
		"websocket, h2c", "h2c, websocket", "websocket,", "websocket websocket", "\"websocket\""}, // "Upgrade: websocket" is the whole value
	HConnection: {"keep-alive", "Upgrades", "", "close", "xupgrade", "keep-alive, close", "up-grade", "Upgrade2", "keep-alive, Upgrades", "websocket"},
	HVersion:    {"12", "8", "", "13, 8", "8, 13", "013", "14", "130", "1 3", "13x", "0", "1", "3", "x13", "13.0", "-13"},
	HKey:        nil, // drawn: wrong lengths
}

// open-class spellings (asserted only through the unconditional invariants)
var openValues = [NumRequired][]string{
	HHost:       {""},
	HUpgrade:    nil,
	HConnection: {"\"Upgrade\"", "Upgrade;q=1", "a b, Upgrade", "(c) Upgrade", "Upgrade, \"x", "a=b, upgrade", "keep-alive, Upgr\xc3\xa4de", "keep-alive Upgrade"},
	HVersion:    nil,
	HKey:        {"AAAAAAAAAAAAAAAAAAAAAAAA", "!!!!!!!!!!!!!!!!!!!!!!!!", "AAAAAAAAAAAAAAAAAAAAAA=A", "AAAAAAAAAAAAAAAAAAAAAB==", "====AAAAAAAAAAAAAAAAAAAA"},
}

// GoodValues returns the table of compliant values for h (for HKey: none, draw one with GenKey).
func GoodValues(h HeaderID) []string { return goodValues[h] }

// WrongValues returns the table of values for h that violate the requirement.
// For HKey the table holds wrong-length keys.
func WrongValues(h HeaderID) []string {
	if h == HKey {
		return wrongKeys
	}
	return wrongValues[h]
}

// OpenValues returns values for h whose treatment the property leaves open.
func OpenValues(h HeaderID) []string { return openValues[h] }

var wrongKeys = []string{"", "A", "dGhlIHNhbXBsZQ==", "dGhlIHNhbXBsZSBub25jZQ=", "dGhlIHNhbXBsZSBub25jZQ", "dGhlIHNhbXBsZSBub25jZQ===",
	"dGhlIHNhbXBsZSBub25jZQ==A", "dGhlIHNhbXBsZSBub25jZSBub25jZQ==", "dGhlIHNhbXBsZSBub25jZSB0aGUgc2FtcGxlIG5vbmNl", "dGhlIHNhbXBsZSBub25j"}

// NameSpellings returns letter-case variants of a header name; the first is the RFC spelling.
func NameSpellings(name string) []string {
	alt := []byte(name)
	for i := range alt {
		if i%2 == 1 {
			alt[i] = swapCase(alt[i])
		}
	}
	goCanon := []byte(strings.ToLower(name))
	up := true
	for i, c := range goCanon {
		if up && 'a' <= c && c <= 'z' {
			goCanon[i] = c - 32
		}
		up = c == '-'
	}
	return []string{name, strings.ToLower(name), strings.ToUpper(name), string(goCanon), string(alt)}
}

func swapCase(c byte) byte {
	switch {
	case 'a' <= c && c <= 'z':
		return c - 32
	case 'A' <= c && c <= 'Z':
		return c + 32
	}
	return c
}

// ---------------------------------------------------------------------------
// plan

// Comp is one thing that can be wrong with a (request, configuration) pair.
type Comp int

const (
	CMethod Comp = iota
	CVersion
	CHost
	CUpgrade
	CConnection
	CWSVersion
	CKey
	CJunk // a header line without colon
	COnRequest
	COnHost
	COnHeader
	COnBefore
	CNegotiate
	NumComp
)

var compNames = [...]string{"method", "version", "host", "upgrade", "connection", "ws-version", "key", "junk-line",
	"OnRequest", "OnHost", "OnHeader", "OnBeforeUpgrade", "Negotiate"}

func (c Comp) String() string { return compNames[c] }

// Plan says which components the generators break. Open additionally lets
// them use spellings the property leaves open.
type Plan struct {
	Mode string // "valid", "single", "free"
	Bad  [NumComp]bool
	Open bool
	// ExtFail marks (by index into ExtNames) the extension names a
	// negotiator objects to. It is independent of Bad[CNegotiate]: the
	// configuration carries the failing policies either way; the request
	// offers such a name (in a well-formed line) only when Bad[CNegotiate].
	ExtFail [4]bool
}

// ExtNames are the extension names the generators use.
var ExtNames = extVocab

func (p Plan) extNames(failing bool) []string {
	var out []string
	for i, n := range extVocab {
		if p.ExtFail[i] == failing {
			out = append(out, n)
		}
	}
	return out
}

// NumBad counts the broken components.
func (p Plan) NumBad() int {
	n := 0
	for _, b := range p.Bad {
		if b {
			n++
		}
	}
	return n
}

// ValidPlan breaks nothing and uses no open spellings.
func ValidPlan() Plan { return Plan{Mode: "valid"} }

// GenPlan draws a plan: ~30% nothing broken, ~35% exactly one component,
// the rest independent faults (and open spellings). Callback components are
// only broken for kind Raw.
func GenPlan(t *rapid.T, label string, kind Kind) Plan {
	last := NumComp
	comps := make([]Comp, 0, NumComp)
	for c := Comp(0); c < last; c++ {
		if kind == HTTP && (c >= COnRequest && c <= COnBefore || c == CJunk) {
			continue // no callbacks on HTTPUpgrader; net/http refuses lines without colon itself
		}
		comps = append(comps, c)
	}
	var p Plan
	switch m := rapid.IntRange(0, 99).Draw(t, label+".mode"); {
	case m < 30:
		p.Mode = "valid"
	case m < 65:
		p.Mode = "single"
		p.Bad[rapid.SampledFrom(comps).Draw(t, label+".which")] = true
	default:
		p.Mode = "free"
		p.Open = rapid.IntRange(0, 2).Draw(t, label+".open") == 0
		for _, c := range comps {
			p.Bad[c] = rapid.IntRange(0, 5).Draw(t, label+"."+c.String()) == 0
		}
	}
	// failing negotiator policies: a proper, non-empty subset of the names
	// whenever the negotiator has to object, and in half of the other plans
	if p.Bad[CNegotiate] || rapid.Bool().Draw(t, label+".extfail") {
		n := 0
		for i := range p.ExtFail {
			p.ExtFail[i] = rapid.IntRange(0, 2).Draw(t, label+".extfail."+extVocab[i]) == 0
			if p.ExtFail[i] {
				n++
			}
		}
		k := rapid.IntRange(0, len(p.ExtFail)-1).Draw(t, label+".extfail.fix")
		if n == 0 {
			p.ExtFail[k] = true
		} else if n == len(p.ExtFail) {
			p.ExtFail[k] = false
		}
	}
	return p
}

// ---------------------------------------------------------------------------
// request

// GenKey draws the base64 form of 16 bytes.
func GenKey(t *rapid.T, label string) string {
	var n [16]byte
	switch rapid.IntRange(0, 5).Draw(t, label+".kind") {
	case 0: // all zero
	case 1:
		for i := range n {
			n[i] = 0xff
		}
	default:
		b := rapid.SliceOfN(rapid.Byte(), 16, 16).Draw(t, label)
		copy(n[:], b)
	}
	return KeyFor(n)
}

const b64alphabet = "ABCDEFGHIJKLMNOPQRSTUVWXYZabcdefghijklmnopqrstuvwxyz0123456789+/"

func genWrongKey(t *rapid.T, label string) string {
	if rapid.Bool().Draw(t, label+".table") {
		return rapid.SampledFrom(wrongKeys).Draw(t, label+".v")
	}
	n := rapid.SampledFrom([]int{0, 1, 8, 16, 20, 22, 23, 25, 26, 28, 32, 44}).Draw(t, label+".len")
	b := make([]byte, n)
	for i := range b {
		b[i] = b64alphabet[rapid.IntRange(0, 63).Draw(t, label+".c")]
	}
	return string(b)
}

func genGood(t *rapid.T, label string, h HeaderID, canonical bool) string {
	if h == HKey {
		return GenKey(t, label+".key")
	}
	if canonical {
		return goodValues[h][0]
	}
	return rapid.SampledFrom(goodValues[h]).Draw(t, label+".good")
}

func genWrong(t *rapid.T, label string, h HeaderID, open bool) string {
	if open && len(openValues[h]) > 0 && rapid.IntRange(0, 2).Draw(t, label+".openv") == 0 {
		return rapid.SampledFrom(openValues[h]).Draw(t, label+".ov")
	}
	switch h {
	case HKey:
		return genWrongKey(t, label+".wkey")
	case HHost:
		return "" // open
	}
	return rapid.SampledFrom(wrongValues[h]).Draw(t, label+".wrong")
}

func genName(t *rapid.T, label, name string, vary bool) string {
	if !vary {
		return name
	}
	sp := NameSpellings(name)
	if rapid.IntRange(0, 3).Draw(t, label+".namekind") == 0 {
		b := []byte(name)
		for i := range b {
			if rapid.Bool().Draw(t, label+".flip") {
				b[i] = swapCase(b[i])
			}
		}
		return string(b)
	}
	return rapid.SampledFrom(sp[1:]).Draw(t, label+".name")
}

// GenState draws the state of one required header: a good one, or - when bad
// is set - a state that breaks the requirement (or leaves it open, if allowed).
func GenState(t *rapid.T, label string, h HeaderID, bad, open bool) State {
	if !bad {
		return rapid.SampledFrom([]State{Canonical, Canonical, CaseVaried, Padded, DupGood}).Draw(t, label+".state")
	}
	opts := []State{Absent, Wrong}
	if h == HHost {
		opts = []State{Absent}
		if open {
			opts = []State{Absent, Wrong, DupMixed}
		}
	} else if open {
		opts = []State{Absent, Wrong, DupMixed}
	}
	return rapid.SampledFrom(opts).Draw(t, label+".state")
}

// LinesFor draws the header line(s) that put required header h into state s.
func LinesFor(t *rapid.T, label string, h HeaderID, s State, open bool) []Line {
	name := RequiredNames[h]
	canon := func(v string) Line { return Line{Name: name, Lead: " ", Value: v} }
	anyGood := func(l string) Line {
		ln := Line{Name: genName(t, l, name, rapid.Bool().Draw(t, l+".vary")), Lead: " ", Value: genGood(t, l, h, false)}
		if rapid.IntRange(0, 2).Draw(t, l+".pad") == 0 {
			ln.Lead = rapid.SampledFrom(Pads).Draw(t, l+".lead")
			ln.Trail = rapid.SampledFrom(Pads).Draw(t, l+".trail")
		}
		return ln
	}
	switch s {
	case Absent:
		return nil
	case Canonical:
		return []Line{canon(genGood(t, label, h, true))}
	case CaseVaried:
		ln := canon(genGood(t, label, h, false))
		ln.Name = genName(t, label, name, true)
		return []Line{ln}
	case Padded:
		ln := canon(genGood(t, label, h, rapid.Bool().Draw(t, label+".canonval")))
		ln.Lead = rapid.SampledFrom(Pads).Draw(t, label+".lead")
		ln.Trail = rapid.SampledFrom(Pads).Draw(t, label+".trail")
		if ln.Lead == " " && ln.Trail == "" {
			ln.Trail = "\t"
		}
		if rapid.IntRange(0, 7).Draw(t, label+".namepad") == 0 {
			// blank between the name and the colon ("header names ... surrounding
			// blanks ignored"; net/http refuses such a line itself)
			ln.Name += rapid.SampledFrom([]string{" ", "\t", " \t "}).Draw(t, label+".npad")
		}
		return []Line{ln}
	case Wrong:
		if (h == HUpgrade || h == HVersion || h == HKey) && rapid.IntRange(0, 3).Draw(t, label+".straycr") == 0 {
			// a good value followed by stray CR(s) before the line terminator
			ln := canon(genGood(t, label, h, rapid.Bool().Draw(t, label+".canonval")))
			ln.Trail = rapid.SampledFrom(StrayCRs).Draw(t, label+".cr")
			return []Line{ln}
		}
		ln := canon(genWrong(t, label, h, open))
		if rapid.IntRange(0, 3).Draw(t, label+".wvary") == 0 {
			ln.Name = genName(t, label, name, true)
		}
		return []Line{ln}
	case DupGood:
		return []Line{anyGood(label + ".a"), anyGood(label + ".b")}
	case DupMixed:
		bad := canon(genWrong(t, label, h, false))
		return []Line{anyGood(label + ".g"), bad}
	}
	return nil
}

func genTokenList(t *rapid.T, label string, vocab []string, max int, open bool) string {
	n := rapid.IntRange(1, max).Draw(t, label+".n")
	var b strings.Builder
	for i := 0; i < n; i++ {
		if i > 0 {
			seps := []string{", ", ",", " , ", ",  ", ", ", ",", ",\t", "\t,", ",,", " ,\t, "}
			if open {
				seps = append(seps, " ", "\t", ";")
			}
			b.WriteString(rapid.SampledFrom(seps).Draw(t, label+".sep"))
		}
		b.WriteString(rapid.SampledFrom(vocab).Draw(t, label+".tok"))
	}
	return b.String()
}

func genProtocolValue(t *rapid.T, label string, open bool) string {
	if open && rapid.IntRange(0, 3).Draw(t, label+".odd") == 0 {
		return rapid.SampledFrom([]string{"", ",", " , ", "ch@t", "\"chat\"", "chat; q=1", "chat\tsuperchat", "chat superchat", "(x) chat", "chat, sup\\er"}).Draw(t, label+".oddv")
	}
	return genTokenList(t, label, protoVocab, 4, open)
}

func genExtensionValue(t *rapid.T, label string, open bool, names []string, force string) string {
	if open && rapid.IntRange(0, 3).Draw(t, label+".odd") == 0 {
		return rapid.SampledFrom(OddExtensionValues).Draw(t, label+".oddv")
	}
	n := rapid.IntRange(1, 3).Draw(t, label+".n")
	forceAt := -1
	if force != "" {
		forceAt = rapid.IntRange(0, n-1).Draw(t, label+".forceat")
	}
	var b strings.Builder
	for i := 0; i < n; i++ {
		if i > 0 {
			b.WriteString(rapid.SampledFrom([]string{", ", ",", " , ", ", ", ",", ",\t", ",,"}).Draw(t, label+".sep"))
		}
		name := rapid.SampledFrom(names).Draw(t, label+".name")
		if i == forceAt {
			name = force
		}
		b.WriteString(name)
		np := rapid.IntRange(0, 2).Draw(t, label+".np")
		for j := 0; j < np; j++ {
			b.WriteString(rapid.SampledFrom([]string{"; ", ";", " ; ", "; ", ";", ";\t"}).Draw(t, label+".psep"))
			b.WriteString(rapid.SampledFrom(paramKeys).Draw(t, label+".pk"))
			if v := rapid.SampledFrom(paramVals).Draw(t, label+".pv"); v != "" {
				if rapid.IntRange(0, 5).Draw(t, label+".quoted") == 0 {
					v = "\"" + v + "\"" // quoted-string form of the same value
				}
				b.WriteString("=" + v)
			}
		}
	}
	return b.String()
}

// OddExtensionValues are Sec-WebSocket-Extensions values that are not plain
// option lists (open class: their treatment is decided by httphead).
var OddExtensionValues = []string{"", ",", "x-a;", ";x-a", "x-a; p=\"a b\"", "x-a; p = 1", "x-a; =1", "x-a;;p",
	"x-a; p=\"a\\\"b\"", "x-a x-b", "x-a; p=\"unterminated", "x-a; p=\"a,b\"", "x-a; p=\"a;b\""}

var extraHeaders = []HeaderKV{
	{"Origin", "http://example.com"},
	{"User-Agent", "rapid/1.0 (test; x)"},
	{"X-Custom", "a:b:c"},
	{"Accept-Encoding", "gzip, deflate"},
	{"Cache-Control", "no-cache"},
	{"Pragma", "no-cache"},
	{"Sec-WebSocket-Foo", "bar"},
	{"X-Empty", ""},
	{"Authorization", "Bearer abc.def"},
	{"x-lower", "websocket"},
	{"Upgrade-Insecure-Requests", "1"},
	{"Sec-WebSocket-Key2", "12345"},
}

func genExtra(t *rapid.T, label string) Line {
	switch k := rapid.IntRange(0, 9).Draw(t, label+".kind"); {
	case k == 0: // longer than the small read buffers
		n := rapid.IntRange(60, 400).Draw(t, label+".len")
		return Line{Name: "Cookie", Lead: " ", Value: strings.Repeat("c=0123456789; ", n/14+1)[:n]}
	case k == 1 && rapid.IntRange(0, 3).Draw(t, label+".huge") == 0: // longer than the default 4096 buffer
		n := rapid.IntRange(4090, 9000).Draw(t, label+".len")
		return Line{Name: "Cookie", Lead: " ", Value: strings.Repeat("k=abcdefghijklmnopqrstuvwxyz; ", n/30+1)[:n]}
	}
	kv := rapid.SampledFrom(extraHeaders).Draw(t, label+".kv")
	return Line{Name: kv.Name, Lead: rapid.SampledFrom([]string{" ", " ", "", "\t"}).Draw(t, label+".lead"), Value: kv.Value}
}

// GenRequest draws a request that follows plan: the request-side components
// marked Bad are broken (each in a way that is must-fail, or open if
// plan.Open), everything else is compliant but freely spelled: name case,
// value case, blanks, duplicates, header order, extra headers, subprotocol and
// extension offers, CRLF / LF / mixed line ends.
func GenRequest(t *rapid.T, label string, plan Plan) *Request {
	r := &Request{Method: "GET"}
	if plan.Bad[CMethod] {
		r.Method = rapid.SampledFrom(BadMethods).Draw(t, label+".method")
		if plan.Open && rapid.IntRange(0, 9).Draw(t, label+".nomethod") == 0 {
			r.Method = ""
		}
	}
	r.Target = rapid.SampledFrom(Targets).Draw(t, label+".target")
	switch rapid.IntRange(0, 19).Draw(t, label+".targetkind") {
	case 0:
		r.Target = "/" + strings.Repeat("p/", rapid.IntRange(30, 200).Draw(t, label+".tlen"))
	case 1:
		if plan.Open {
			r.Target = rapid.SampledFrom(AbsTargets).Draw(t, label+".abs")
		}
	}
	switch {
	case !plan.Bad[CVersion]:
		r.Version = "HTTP/1.1"
		if rapid.IntRange(0, 3).Draw(t, label+".later") == 0 {
			r.Version = rapid.SampledFrom(GoodVersions).Draw(t, label+".version")
		}
	default:
		switch k := rapid.IntRange(0, 11).Draw(t, label+".vkind"); {
		case k >= 10: // a valid version, but the line has extra spaces
			r.Version = "HTTP/1.1"
			r.Target = rapid.SampledFrom(SpacedTargets).Draw(t, label+".spaced")
			if rapid.IntRange(0, 3).Draw(t, label+".spacedmethod") == 0 {
				r.Target = "/ws"
				r.Method = rapid.SampledFrom([]string{" GET", "GET ", " GET ", "G ET"}).Draw(t, label+".spmethod")
			}
		case k < 3:
			r.Version = rapid.SampledFrom(LowVersions).Draw(t, label+".version")
			if rapid.IntRange(0, 2).Draw(t, label+".notone") == 0 {
				r.Version = rapid.SampledFrom(NotOneVersions).Draw(t, label+".version")
			}
		case k < 7:
			r.Version = rapid.SampledFrom(MalformedVersions).Draw(t, label+".version")
		case k == 7: // HTTP/1.<one non-digit byte>, HTTP/<c>.1, HTTP/1.1<c>
			c := byte(rapid.IntRange(0x21, 0x7e).Draw(t, label+".vchar"))
			if '0' <= c && c <= '9' {
				c = ':'
			}
			r.Version = rapid.SampledFrom([]string{"HTTP/1." + string(c), "HTTP/" + string(c) + ".1", "HTTP/1.1" + string(c), "HTTP/1." + string(c) + "1"}).Draw(t, label+".vform")
			if c == '.' { // "HTTP/..1" etc. stay malformed, nothing to fix
				r.Version = "HTTP/1.:"
			}
		case k == 8:
			r.NoVersion = true
		default:
			if plan.Open {
				r.Version = rapid.SampledFrom(OpenVersions).Draw(t, label+".version")
			} else {
				r.Version = rapid.SampledFrom(LowVersions).Draw(t, label+".version")
			}
		}
	}

	var lines []Line
	bad := [NumRequired]bool{plan.Bad[CHost], plan.Bad[CUpgrade], plan.Bad[CConnection], plan.Bad[CWSVersion], plan.Bad[CKey]}
	for h := HeaderID(0); h < NumRequired; h++ {
		l := label + "." + RequiredNames[h]
		s := GenState(t, l, h, bad[h], plan.Open)
		r.States[h] = s
		lines = append(lines, LinesFor(t, l, h, s, plan.Open)...)
	}
	// subprotocol offers
	if rapid.Bool().Draw(t, label+".hasproto") {
		n := rapid.IntRange(1, 2).Draw(t, label+".nproto")
		for i := 0; i < n; i++ {
			lines = append(lines, Line{Name: genName(t, label+".pname", NameProtocol, rapid.IntRange(0, 3).Draw(t, label+".pvary") == 0), Lead: " ",
				Value: genProtocolValue(t, label+".proto", plan.Open)})
		}
	}
	// extension offers: 1-3 header lines. Unless Bad[CNegotiate], only names
	// the negotiator does not object to are offered; with it, one offer of
	// one line carries a failing name and the other lines are mostly clean,
	// so that (failing, accepting) and (accepting, failing) line orders
	// are both common.
	if plan.Bad[CNegotiate] || rapid.Bool().Draw(t, label+".hasext") {
		n := rapid.SampledFrom([]int{1, 2, 2, 2, 3}).Draw(t, label+".next")
		okNames, failNames := plan.extNames(false), plan.extNames(true)
		failLine := -1
		if plan.Bad[CNegotiate] && len(failNames) > 0 {
			failLine = rapid.IntRange(0, n-1).Draw(t, label+".failline")
		}
		for i := 0; i < n; i++ {
			names, force := okNames, ""
			switch {
			case i == failLine:
				force = rapid.SampledFrom(failNames).Draw(t, label+".failname")
			case failLine >= 0 && rapid.IntRange(0, 2).Draw(t, label+".anyname") == 0:
				names = extVocab
			}
			lines = append(lines, Line{Name: genName(t, label+".ename", NameExtensions, rapid.IntRange(0, 3).Draw(t, label+".evary") == 0), Lead: " ",
				Value: genExtensionValue(t, label+".ext", plan.Open && !plan.Bad[CNegotiate], names, force)})
		}
	}
	// extra headers
	nx := rapid.IntRange(0, 3).Draw(t, label+".nextra")
	if plan.Bad[COnHeader] && nx == 0 {
		nx = 1
	}
	for i := 0; i < nx; i++ {
		lines = append(lines, genExtra(t, label+".extra"))
	}
	if plan.Bad[CJunk] {
		lines = append(lines, Line{NoColon: true, Name: rapid.SampledFrom([]string{"garbage", "X-NoColon value", "GET / HTTP/1.1", "Host", "Upgrade websocket", "=", "Sec-WebSocket-Key", "x", "\r", "\r\r"}).Draw(t, label+".junk")})
	}
	if len(lines) > 1 && rapid.IntRange(0, 4).Draw(t, label+".shuffle") > 0 {
		lines = rapid.Permutation(lines).Draw(t, label+".order")
	}
	// line ends
	style := rapid.SampledFrom([]string{"crlf", "crlf", "crlf", "lf", "mixed"}).Draw(t, label+".eol")
	pick := func() string {
		switch style {
		case "lf":
			return "\n"
		case "mixed":
			if rapid.Bool().Draw(t, label+".lf") {
				return "\n"
			}
		}
		return "\r\n"
	}
	r.LineEOL = pick()
	for i := range lines {
		lines[i].EOL = pick()
	}
	for i := range lines {
		// "\r" + LF would be a genuine (CRLF) empty line and end the head early
		if lines[i].NoColon && lines[i].Name == "\r" && lines[i].EOL == "\n" {
			lines[i].Name = "\r\r"
		}
	}
	r.EndEOL = pick()
	r.Lines = lines
	return r
}

// ---------------------------------------------------------------------------
// configuration

func genHeaders(t *rapid.T, label string, names []string, max int) []HeaderKV {
	n := rapid.IntRange(0, max).Draw(t, label+".n")
	var out []HeaderKV
	for i := 0; i < n; i++ {
		out = append(out, HeaderKV{
			Name:  rapid.SampledFrom(names).Draw(t, label+".name"),
			Value: rapid.SampledFrom([]string{"a", "b c", "v=1; path=/", "Basic realm=\"x\"", "120", "x,y"}).Draw(t, label+".value"),
		})
	}
	return out
}

// HostileReasons are error texts that are legal for an error value but hostile
// to careless formatting or framing of the response body: printf verbs,
// percent-encoded text, braces, backslashes, line breaks, a fake response
// head, bytes outside ASCII, and texts longer than the write buffers.
var HostileReasons = []string{"%", "100% denied", "no %2Fadmin for you", "%d", "%s%s%s", "%!", "%zz", "50%", "%v %+v %#v %T %%", "%!(EXTRA string=x)",
	"{}", "{0} ${x} #{y}", "back\\slash \\n \\r\\n \\", "line1\r\nline2", "\r\n\r\nHTTP/1.1 200 OK\r\nContent-Length: 0\r\n\r\n", "Content-Length: 0", "tab\there", "nul\x00byte \xff\xfe", "caf\u00e9 \u20ac",
	strings.Repeat("long reason ", 60), strings.Repeat("%", 600), strings.Repeat("x", 5000)}

func genReason(t *rapid.T, label, who string) string {
	if rapid.IntRange(0, 2).Draw(t, label+".hostile") == 0 {
		return rapid.SampledFrom(HostileReasons).Draw(t, label+".h")
	}
	return rapid.SampledFrom([]string{who + " says no", "denied by " + who, "", who + ": a rather long explanation of why this request was not acceptable to the application layer"}).Draw(t, label)
}

func genErrKind(t *rapid.T, label string) ErrValueKind {
	if rapid.Bool().Draw(t, label+".plainnew") {
		return ErrNew
	}
	return ErrValueKind(rapid.IntRange(0, int(NumErrValueKinds)-1).Draw(t, label))
}

func genOutcome(t *rapid.T, label, who string, bad bool, acceptHdr bool) Outcome {
	if !bad {
		if rapid.Bool().Draw(t, label+".set") {
			o := Outcome{Kind: CbAccept}
			if acceptHdr {
				o.Headers = genHeaders(t, label+".hdr", []string{"X-Before", "X-Session"}, 2)
			}
			return o
		}
		return Outcome{Kind: CbNil}
	}
	reason := genReason(t, label+".reason", who)
	if rapid.Bool().Draw(t, label+".plain") {
		return Outcome{Kind: CbError, Reason: reason, ErrKind: genErrKind(t, label+".errkind")}
	}
	return Outcome{Kind: CbReject, Status: rapid.SampledFrom(rejectStatusesOr0).Draw(t, label+".status"), Reason: reason,
		Headers: genHeaders(t, label+".hdr", []string{"X-Reject-Why", "WWW-Authenticate", "Retry-After", "X-Rej-B", "Location"}, 2)}
}

// BufSizes are the ReadBufferSize/WriteBufferSize values drawn (0 = library default).
var BufSizes = []int{0, 64, 128, 4096}

// GenConfig draws an upgrader configuration that follows plan: callbacks
// marked Bad object (plain error, or rejection with headers and a status from
// {401,403,404,503} or without a status); the negotiator objects to the names
// in plan.ExtFail (the mode is Negotiate when Bad[CNegotiate]) and accepts or
// declines the others.
func GenConfig(t *rapid.T, label string, kind Kind, plan Plan) *Config {
	c := &Config{Kind: kind}
	c.ReadBuf = rapid.SampledFrom(BufSizes).Draw(t, label+".rbuf")
	c.WriteBuf = rapid.SampledFrom(BufSizes).Draw(t, label+".wbuf")
	if rapid.IntRange(0, 2).Draw(t, label+".hasproto") > 0 {
		c.HasProtocol = true
		for _, p := range protoVocab {
			if rapid.IntRange(0, 2).Draw(t, label+".acc."+p) == 0 {
				c.Protocols = append(c.Protocols, p)
			}
		}
		if kind == HTTP {
			// the library's ready-made selectors for HTTPUpgrader.Protocol
			switch rapid.IntRange(0, 3).Draw(t, label+".protohelper") {
			case 1, 2:
				c.ProtoHelper = ProtoFromSlice
				// SelectFromSlice switches from a scan to a map above 16 names:
				// pad with names nobody offers to 0..15, exactly 16, 17 or more
				pad := rapid.SampledFrom([]int{0, 0, 3, 16 - len(c.Protocols), 17 - len(c.Protocols), 17, 30}).Draw(t, label+".pad")
				at := rapid.IntRange(0, len(c.Protocols)).Draw(t, label+".padat")
				var fill []string
				for i := 0; i < pad; i++ {
					fill = append(fill, "pad-"+string(rune('a'+i%26))+string(rune('a'+i/26)))
				}
				c.Protocols = append(append(append([]string(nil), c.Protocols[:at]...), fill...), c.Protocols[at:]...)
			case 3:
				c.ProtoHelper = ProtoEqual
				c.Protocols = []string{rapid.SampledFrom(protoVocab).Draw(t, label+".equal")}
			}
		}
	}
	c.ExtMode = ExtMode(rapid.IntRange(0, 2).Draw(t, label+".extmode"))
	if kind == Raw {
		// the Custom hooks exist on ws.Upgrader only
		switch rapid.IntRange(0, 9).Draw(t, label+".protocustom") {
		case 0, 1, 2:
			c.ProtoCustom = ProtoCustomLast
		case 3:
			c.ProtoCustom = ProtoCustomFixed
		}
		if c.ProtoCustom != ProtoCustomNone {
			for _, p := range protoVocab {
				if rapid.IntRange(0, 1).Draw(t, label+".cacc."+p) == 0 {
					c.CustomProtocols = append(c.CustomProtocols, p)
				}
			}
		}
		if rapid.IntRange(0, 3).Draw(t, label+".extcustom") == 0 {
			c.ExtMode = ExtCustom
			c.ExtSelectorAlso = rapid.Bool().Draw(t, label+".extselalso")
		}
	}
	if plan.Bad[CNegotiate] {
		c.ExtMode = ExtNegotiate
	}
	c.Ext = map[string]ExtPolicy{}
	for i, n := range extVocab {
		var p ExtPolicy
		switch {
		case plan.ExtFail[i]:
			if rapid.Bool().Draw(t, label+".ext.plain."+n) {
				p = ExtPolicy{Act: ExtPlainError, ErrKind: genErrKind(t, label+".ext.errkind."+n), Reason: genReason(t, label+".ext.reason."+n, "Negotiate("+n+")")}
			} else {
				p = ExtPolicy{Act: ExtReject, Status: rapid.SampledFrom(rejectStatusesOr0).Draw(t, label+".ext.status."+n), Reason: genReason(t, label+".ext.reason."+n, "Negotiate("+n+")"),
					Headers: genHeaders(t, label+".ext.hdr."+n, []string{"X-Reject-Why", "X-Rej-B", "Location"}, 2)}
			}
		default:
			p.Act = rapid.SampledFrom([]ExtAct{ExtDecline, ExtAcceptAll, ExtAcceptAll, ExtAcceptFirst, ExtAcceptBare}).Draw(t, label+".ext.act."+n)
		}
		if p.Act != ExtDecline || rapid.Bool().Draw(t, label+".ext.listed."+n) {
			c.Ext[n] = p
		}
	}
	if kind == Raw {
		c.OnRequest = genOutcome(t, label+".onrequest", "OnRequest", plan.Bad[COnRequest], false)
		c.OnHost = genOutcome(t, label+".onhost", "OnHost", plan.Bad[COnHost], false)
		c.OnHeader = genOutcome(t, label+".onheader", "OnHeader", plan.Bad[COnHeader], false)
		c.OnBeforeUpgrade = genOutcome(t, label+".onbefore", "OnBeforeUpgrade", plan.Bad[COnBefore], true)
		c.HeaderForm = HeaderForm(rapid.IntRange(0, 4).Draw(t, label+".hform"))
	} else {
		c.HeaderForm = HeaderForm(rapid.IntRange(0, 1).Draw(t, label+".hform"))
	}
	if c.HeaderForm != HeaderNone {
		c.Header = genHeaders(t, label+".hdr", []string{"X-Srv-A", "X-Srv-B", "Server", "Set-Cookie"}, 3)
	}
	return c
}

// GenValid draws a compliant request with free spelling (the "valid" plan).
func GenValid(t *rapid.T, label string) *Request { return GenRequest(t, label, ValidPlan()) }
