package reqgen

import (
	"errors"
	"fmt"
	"io"
	"net/http"
	"reflect"
	"strings"

	"github.com/gobwas/httphead"
	"github.com/gobwas/ws"
)

// Origin says which configured callback produced an error value.
type Origin struct {
	Who     string     // "OnRequest", "OnHost", "OnHeader", "OnBeforeUpgrade", "Negotiate(<name>)"
	Status  int        // the status the response must carry (500 for a plain error)
	Headers []HeaderKV // rejection headers the response must carry
	Reject  bool       // the error is a ws.RejectConnectionError value ...
	Chosen  int        // ... built with ws.RejectionStatus(Chosen); 0 = without: StatusCode() must report it
}

// StatusAsserted reports whether the property promises a response with
// exactly this rejection status: every 3xx/4xx/5xx status a callback chose
// (RejectionStatus documents "rejected with given HTTP status code"), except
// 304, which HTTP defines as bodiless. Nothing is promised for a "rejection"
// with an informational or success status or a number outside 100..599.
func StatusAsserted(status int) bool { return status >= 300 && status <= 599 && status != 304 }

// Built remembers the error values handed to the library, so that a returned
// error can be traced back to the callback that made it (by identity).
type Built struct {
	errs []error
	from []Origin
	// Calls counts callback invocations by name (for diagnostics).
	Calls map[string]int
}

// Origin finds the callback whose error value err is.
func (b *Built) Origin(err error) (Origin, bool) {
	if err == nil {
		return Origin{}, false
	}
	t := reflect.TypeOf(err)
	for i, e := range b.errs {
		if reflect.TypeOf(e) != t {
			continue
		}
		if t.Comparable() {
			if e == err {
				return b.from[i], true
			}
		} else if e.Error() == err.Error() {
			// not comparable (slice, map, func, struct holding one): same
			// dynamic type and same text. Two callbacks may share both; they
			// are plain errors then, with the same promised answer.
			return b.from[i], true
		}
	}
	return Origin{}, false
}

// error value kinds (see ErrValueKind)

type valueErr struct {
	msg  string
	code int
}

func (e valueErr) Error() string { return e.msg }

type sliceStructErr struct {
	msg    string
	fields []string
}

func (e sliceStructErr) Error() string { return e.msg }

type fieldErrors []string

func (e fieldErrors) Error() string { return strings.Join(e, "") }

type mapErr map[string]string

func (e mapErr) Error() string { return e["msg"] }

type funcErr func() string

func (e funcErr) Error() string { return e() }

type nilableErr struct{ msg string }

func (e *nilableErr) Error() string {
	if e == nil {
		return "rejected (nil *nilableErr)"
	}
	return e.msg
}

// PlainError makes a plain error value of the given kind whose text is reason
// (ErrTypedNil has a fixed text).
func PlainError(kind ErrValueKind, reason string) error {
	switch kind {
	case ErrWrapped:
		return fmt.Errorf("%s%w", reason, errors.New(""))
	case ErrValueStruct:
		return valueErr{reason, 7}
	case ErrSliceStruct:
		return sliceStructErr{reason, []string{"a", "b"}}
	case ErrSlice:
		if len(reason) > 2 {
			return fieldErrors{reason[:2], reason[2:]}
		}
		return fieldErrors{reason}
	case ErrMap:
		return mapErr{"msg": reason}
	case ErrFunc:
		return funcErr(func() string { return reason })
	case ErrTypedNil:
		var p *nilableErr
		return p
	}
	return errors.New(reason)
}

func (b *Built) mkErr(who string, failKind bool, status int, reason string, hdr []HeaderKV, kind ...ErrValueKind) error {
	var err error
	var o Origin
	if failKind { // reject
		opts := []ws.RejectOption{ws.RejectionReason(reason)}
		chosen := status
		if status != 0 {
			opts = append(opts, ws.RejectionStatus(status))
		} else {
			status = 500 // no chosen status: answered like an error without one
		}
		if len(hdr) > 0 {
			if len(hdr)%2 == 1 {
				opts = append(opts, ws.RejectionHeader(ws.HandshakeHeaderString(headerLines(hdr))))
			} else {
				opts = append(opts, ws.RejectionHeader(ws.HandshakeHeaderHTTP(httpHeader(hdr))))
			}
		}
		err = ws.RejectConnectionError(opts...)
		o = Origin{who, status, hdr, true, chosen}
	} else {
		k := ErrNew
		if len(kind) > 0 {
			k = kind[0]
		}
		err = PlainError(k, reason)
		o = Origin{Who: who, Status: 500}
	}
	b.errs = append(b.errs, err)
	b.from = append(b.from, o)
	return err
}

func (b *Built) outcomeErr(who string, o Outcome) error {
	switch o.Kind {
	case CbError:
		return b.mkErr(who, false, 500, o.Reason, nil, o.ErrKind)
	case CbReject:
		return b.mkErr(who, true, o.Status, o.Reason, o.Headers)
	}
	return nil
}

func headerLines(h []HeaderKV) string {
	var s strings.Builder
	for _, kv := range h {
		s.WriteString(kv.Name + ": " + kv.Value + "\r\n")
	}
	return s.String()
}

func httpHeader(h []HeaderKV) http.Header {
	out := http.Header{}
	for _, kv := range h {
		out[kv.Name] = append(out[kv.Name], kv.Value)
	}
	return out
}

func (c *Config) handshakeHeader() ws.HandshakeHeader {
	switch c.HeaderForm {
	case HeaderHTTP:
		return ws.HandshakeHeaderHTTP(httpHeader(c.Header))
	case HeaderString:
		return ws.HandshakeHeaderString(headerLines(c.Header))
	case HeaderBytes:
		return ws.HandshakeHeaderBytes(headerLines(c.Header))
	case HeaderFunc:
		s := headerLines(c.Header)
		return ws.HandshakeHeaderFunc(func(w io.Writer) (int64, error) {
			n, err := io.WriteString(w, s)
			return int64(n), err
		})
	}
	return nil
}

// ResponseHeaders are the configured headers every response must carry
// (none when HeaderForm is HeaderNone).
func (c *Config) ResponseHeaders() []HeaderKV {
	if c.HeaderForm == HeaderNone {
		return nil
	}
	return c.Header
}

func (c *Config) selector() func(httphead.Option) bool {
	return func(o httphead.Option) bool {
		p, ok := c.Ext[string(o.Name)]
		return ok && p.Accepts(ExtSelector)
	}
}

func (c *Config) negotiator(b *Built) func(httphead.Option) (httphead.Option, error) {
	// one error value per policy, created up front in a fixed order
	names := make([]string, 0, len(c.Ext))
	for n := range c.Ext {
		names = append(names, n)
	}
	sortStrings(names)
	errs := map[string]error{}
	for _, n := range names {
		p := c.Ext[n]
		switch p.Act {
		case ExtPlainError:
			errs[n] = b.mkErr("Negotiate("+n+")", false, 500, p.Reason, nil, p.ErrKind)
		case ExtReject:
			errs[n] = b.mkErr("Negotiate("+n+")", true, p.Status, p.Reason, p.Headers)
		}
	}
	return func(o httphead.Option) (httphead.Option, error) {
		b.Calls["Negotiate"]++
		name := string(o.Name) // copy: the argument is only valid during the call
		p, ok := c.Ext[name]
		if !ok {
			return httphead.Option{}, nil
		}
		if err := errs[name]; err != nil {
			return httphead.Option{}, err
		}
		if !p.Accepts(ExtNegotiate) {
			return httphead.Option{}, nil
		}
		ret := httphead.Option{Name: []byte(name)}
		i := 0
		o.Parameters.ForEach(func(k, v []byte) bool {
			take := p.Act == ExtAcceptAll || (p.Act == ExtAcceptFirst && i == 0)
			i++
			if take {
				ret.Parameters.Set(append([]byte(nil), k...), append([]byte(nil), v...))
			}
			return true
		})
		return ret, nil
	}
}

func sortStrings(s []string) {
	for i := 1; i < len(s); i++ {
		for j := i; j > 0 && s[j-1] > s[j]; j-- {
			s[j-1], s[j] = s[j], s[j-1]
		}
	}
}

// Upgrader builds the ws.Upgrader the configuration describes (Kind is not
// consulted, so a Raw configuration can be built from any Config).
func (c *Config) Upgrader() (ws.Upgrader, *Built) {
	b := &Built{Calls: map[string]int{}}
	u := ws.Upgrader{ReadBufferSize: c.ReadBuf, WriteBufferSize: c.WriteBuf, Header: c.handshakeHeader()}
	if c.HasProtocol {
		u.Protocol = func(p []byte) bool { return c.AcceptsProtocol(string(p)) }
	}
	if c.ProtoCustom != ProtoCustomNone {
		u.ProtocolCustom = func(v []byte) (string, bool) {
			b.Calls["ProtocolCustom"]++
			return c.CustomProtocol(string(v)) // a fresh string, valid after Upgrade returns
		}
	}
	switch c.ExtMode {
	case ExtSelector:
		u.Extension = c.selector()
	case ExtNegotiate:
		u.Negotiate = c.negotiator(b)
	case ExtCustom:
		u.ExtensionCustom = func(v []byte, dst []httphead.Option) ([]httphead.Option, bool) {
			b.Calls["ExtensionCustom"]++
			got, ok := c.CustomExtensions(string(v))
			for _, o := range got { // fresh byte slices: "returned options should be valid until Upgrade returns"
				h := httphead.Option{Name: []byte(o.Name)}
				for _, p := range o.Params {
					h.Parameters.Set([]byte(p.Key), []byte(p.Value))
				}
				dst = append(dst, h)
			}
			return dst, ok
		}
		if c.ExtSelectorAlso {
			u.Extension = func(httphead.Option) bool { return true }
		}
	}
	if c.OnRequest.Kind != CbNil {
		err := b.outcomeErr("OnRequest", c.OnRequest)
		u.OnRequest = func(uri []byte) error { b.Calls["OnRequest"]++; return err }
	}
	if c.OnHost.Kind != CbNil {
		err := b.outcomeErr("OnHost", c.OnHost)
		u.OnHost = func(host []byte) error { b.Calls["OnHost"]++; return err }
	}
	if c.OnHeader.Kind != CbNil {
		err := b.outcomeErr("OnHeader", c.OnHeader)
		u.OnHeader = func(k, v []byte) error { b.Calls["OnHeader"]++; return err }
	}
	if c.OnBeforeUpgrade.Kind != CbNil {
		err := b.outcomeErr("OnBeforeUpgrade", c.OnBeforeUpgrade)
		hdr := ws.HandshakeHeaderString(headerLines(c.OnBeforeUpgrade.Headers))
		u.OnBeforeUpgrade = func() (ws.HandshakeHeader, error) {
			b.Calls["OnBeforeUpgrade"]++
			if err != nil {
				return nil, err
			}
			return hdr, nil // "must return non-nil either HandshakeHeader or error"
		}
	}
	return u, b
}

// HTTPUpgrader builds the ws.HTTPUpgrader the configuration describes. The
// On* outcomes do not exist there; HeaderForm other than HeaderNone means
// "Header set".
func (c *Config) HTTPUpgrader() (ws.HTTPUpgrader, *Built) {
	b := &Built{Calls: map[string]int{}}
	u := ws.HTTPUpgrader{}
	if c.HeaderForm != HeaderNone {
		u.Header = httpHeader(c.Header)
	}
	if c.HasProtocol {
		switch {
		case c.ProtoHelper == ProtoFromSlice:
			u.Protocol = ws.SelectFromSlice(append([]string(nil), c.Protocols...))
		case c.ProtoHelper == ProtoEqual && len(c.Protocols) == 1:
			u.Protocol = ws.SelectEqual(c.Protocols[0])
		default:
			u.Protocol = func(p string) bool { return c.AcceptsProtocol(p) }
		}
	}
	switch c.ExtMode {
	case ExtSelector:
		u.Extension = c.selector()
	case ExtNegotiate:
		u.Negotiate = c.negotiator(b)
	}
	return u, b
}

// FromLibrary converts options returned by the library to model options
// (copying the bytes).
func FromLibrary(in []httphead.Option) []Option {
	var out []Option
	for _, o := range in {
		m := Option{Name: string(o.Name)}
		o.Parameters.ForEach(func(k, v []byte) bool {
			m.Params = append(m.Params, Param{string(k), string(v)})
			return true
		})
		out = append(out, m)
	}
	return out
}
