package reqgen

import (
	"crypto/sha1"
	"encoding/base64"
	"strings"
)

// GUID is the RFC 6455 §1.3 constant.
const GUID = "258EAFA5-E914-47DA-95CA-C5AB0DC85B11"

// AcceptKey is base64(SHA-1(key + GUID)), computed with the standard library.
func AcceptKey(key string) string {
	sum := sha1.Sum([]byte(key + GUID))
	return base64.StdEncoding.EncodeToString(sum[:])
}

// KeyFor is the Sec-WebSocket-Key for 16 nonce bytes.
func KeyFor(nonce [16]byte) string { return base64.StdEncoding.EncodeToString(nonce[:]) }

// IsKey16 reports whether s is the canonical base64 form of exactly 16 bytes.
func IsKey16(s string) bool {
	if len(s) != 24 {
		return false
	}
	b, err := base64.StdEncoding.Strict().DecodeString(s)
	return err == nil && len(b) == 16 && base64.StdEncoding.EncodeToString(b) == s
}

// isTokenChar is RFC 7230 tchar.
func isTokenChar(c byte) bool {
	switch {
	case 'a' <= c && c <= 'z', 'A' <= c && c <= 'Z', '0' <= c && c <= '9':
		return true
	}
	return strings.IndexByte("!#$%&'*+-.^_`|~", c) >= 0
}

// IsToken reports whether s is a non-empty RFC 7230 token.
func IsToken(s string) bool {
	if s == "" {
		return false
	}
	for i := 0; i < len(s); i++ {
		if !isTokenChar(s[i]) {
			return false
		}
	}
	return true
}

func trimSP(s string) string { return strings.Trim(s, " ") }

// TrimBlanks removes SP and HT from both ends (the "surrounding blanks" of the
// property statement).
func TrimBlanks(s string) string { return strings.Trim(s, " \t") }

// StrictTokens parses `token *( *SP "," *SP token )`. Anything else - empty
// elements, HT, quoted strings, other separators, blanks inside an element -
// is reported as not strict; the model then leaves the case open, because the
// treatment of such values is decided by the tokenizer of the httphead
// dependency (and empty list elements are optional in RFC 7230).
func StrictTokens(v string) (tokens []string, strict bool) {
	if v == "" {
		return nil, false
	}
	for _, e := range strings.Split(v, ",") {
		e = trimSP(e)
		if !IsToken(e) {
			return nil, false
		}
		tokens = append(tokens, e)
	}
	return tokens, true
}

// ListTokens reads v as an RFC 7230 comma list `#token`: elements separated
// by commas, optional SP/HT around each ("surrounding blanks ignored"), empty
// elements ignored. ok is false when a non-empty element is not a token
// (quoted string, comment, inner blank, other separator): how such a value is
// to be read the property does not say.
func ListTokens(v string) (tokens []string, ok bool) {
	for _, e := range strings.Split(v, ",") {
		e = TrimBlanks(e)
		if e == "" {
			continue
		}
		if !IsToken(e) {
			return nil, false
		}
		tokens = append(tokens, e)
	}
	return tokens, true
}

// ListOptions reads v as the extension list of RFC 6455 §9.1 with RFC 7230
// list rules: offers separated by commas, parameters by semicolons, optional
// SP/HT around both, empty list elements ignored;
// param = token [ "=" ( token / quoted-string ) ], where only quoted strings
// whose content is itself a token are read (anything with escapes or
// separators inside quotes: ok=false). At least one offer is required.
func ListOptions(v string) (opts []Option, ok bool) {
	for _, e := range strings.Split(v, ",") {
		if TrimBlanks(e) == "" {
			continue
		}
		parts := strings.Split(e, ";")
		name := TrimBlanks(parts[0])
		if !IsToken(name) {
			return nil, false
		}
		o := Option{Name: name}
		for _, p := range parts[1:] {
			p = TrimBlanks(p)
			k, val := p, ""
			if i := strings.IndexByte(p, '='); i >= 0 {
				k, val = p[:i], p[i+1:]
				if len(val) >= 2 && val[0] == '"' && val[len(val)-1] == '"' {
					val = val[1 : len(val)-1]
				}
				if !IsToken(val) {
					return nil, false
				}
			}
			if !IsToken(k) {
				return nil, false
			}
			o.Params = append(o.Params, Param{k, val})
		}
		opts = append(opts, o)
	}
	return opts, len(opts) > 0
}

// HasInnerHT reports whether the (blank-trimmed) value has an HT inside.
func HasInnerHT(v string) bool { return strings.Contains(TrimBlanks(v), "\t") }

// Param is one extension parameter; Value is "" for a valueless parameter.
type Param struct{ Key, Value string }

// Option is one extension offer or answer.
type Option struct {
	Name   string
	Params []Param
}

func (o Option) String() string {
	s := o.Name
	for _, p := range o.Params {
		s += "; " + p.Key
		if p.Value != "" {
			s += "=" + p.Value
		}
	}
	return s
}

// StrictOptions parses
//
//	list  = offer *( *SP "," *SP offer )
//	offer = token *( *SP ";" *SP param )
//	param = token [ "=" token ]
//
// and reports anything else (quoted strings, HT, empty elements, blanks around
// "=") as not strict; see StrictTokens.
func StrictOptions(v string) (opts []Option, strict bool) {
	if v == "" {
		return nil, false
	}
	for _, e := range strings.Split(v, ",") {
		parts := strings.Split(e, ";")
		name := trimSP(parts[0])
		if !IsToken(name) {
			return nil, false
		}
		o := Option{Name: name}
		for _, p := range parts[1:] {
			p = trimSP(p)
			k, val := p, ""
			if i := strings.IndexByte(p, '='); i >= 0 {
				k, val = p[:i], p[i+1:]
				if !IsToken(val) {
					return nil, false
				}
			}
			if !IsToken(k) {
				return nil, false
			}
			o.Params = append(o.Params, Param{k, val})
		}
		opts = append(opts, o)
	}
	return opts, true
}

// FromOffer reports whether answer occurs in the offers: an offer with the
// same name exists whose parameters include every parameter of the answer.
func FromOffer(answer Option, offers []Option) bool {
	for _, o := range offers {
		if o.Name != answer.Name {
			continue
		}
		all := true
		for _, p := range answer.Params {
			found := false
			for _, q := range o.Params {
				if p == q {
					found = true
					break
				}
			}
			if !found {
				all = false
				break
			}
		}
		if all {
			return true
		}
	}
	return false
}

// VersionKind classifies a request-line version token.
type VersionKind int

const (
	VersionOK          VersionKind = iota // HTTP/<major>.<minor>, plain digits, no leading zeros, major of at most 9 and minor of at most 18 digits
	VersionLeadingZero                    // digits only but with a leading zero (open)
	VersionHuge                           // digits only, major 1, a minor of more than 18 digits (open: the statement does not say how large an x "a later 1.x" has to be understood)
	VersionMalformed                      // anything else: not an HTTP version
	// VersionMajorNotOne: digits only, the major numeral has leading zeros or
	// more than 9 digits and its mathematical value is not 1 (e.g. 2^64+1,
	// 2^32+1, 02): whatever an implementation's integer type makes of it,
	// it is not HTTP/1.x.
	VersionMajorNotOne
)

// ParseVersion classifies tok and, for VersionOK / VersionLeadingZero, returns the numbers.
func ParseVersion(tok string) (kind VersionKind, major, minor int) {
	if !strings.HasPrefix(tok, "HTTP/") {
		return VersionMalformed, 0, 0
	}
	rest := tok[5:]
	dot := strings.IndexByte(rest, '.')
	if dot < 0 {
		return VersionMalformed, 0, 0
	}
	a, b := rest[:dot], rest[dot+1:]
	num := func(s string) (int, bool) {
		if s == "" {
			return 0, false
		}
		n := 0
		for i := 0; i < len(s); i++ {
			if s[i] < '0' || s[i] > '9' {
				return 0, false
			}
			if i < 18 {
				n = n*10 + int(s[i]-'0')
			}
		}
		return n, true
	}
	ma, ok1 := num(a)
	mi, ok2 := num(b)
	if !ok1 || !ok2 {
		return VersionMalformed, 0, 0
	}
	if stripped := strings.TrimLeft(a, "0"); stripped != "1" && (len(a) > 9 || a[0] == '0' && len(a) > 1) {
		return VersionMajorNotOne, 0, 0
	}
	if len(a) > 9 || len(b) > 18 {
		return VersionHuge, 0, 0
	}
	if (len(a) > 1 && a[0] == '0') || (len(b) > 1 && b[0] == '0') {
		return VersionLeadingZero, ma, mi
	}
	return VersionOK, ma, mi
}

// IsAbsoluteTarget reports whether the request target is in absolute-URI form.
func IsAbsoluteTarget(t string) bool { return strings.Contains(t, "://") }
