// Package reqgen is the structured model of a WebSocket opening-handshake
// request as a server sees it: a Request value that renders to bytes, a rapid
// generator over the request grammar of DESIGN.md §3/§4.9, a description of an
// upgrader configuration (Config) that can be turned into a ws.Upgrader or a
// ws.HTTPUpgrader, and the acceptance model Classify(request, config) that
// says whether the pair must succeed, must fail (with which HTTP statuses) or
// is left open by property C09.
//
// The model (model.go, parse.go) shares no code with gobwas/ws or httphead: it
// is written from the property statement. build.go is the only file that
// touches the library (it only constructs option structs).
//
// Typical use:
//
//	plan := reqgen.GenPlan(t, "plan")
//	req := reqgen.GenRequest(t, "req", plan)
//	cfg := reqgen.GenConfig(t, "cfg", reqgen.Raw, plan)
//	v := reqgen.Classify(req, cfg)          // MustSucceed / MustFail / Open
//	hs, err := cfg.Upgrader().Upgrade(tx.RW{tx.NewSrc(req.Render(), chunks), rec})
package reqgen

import (
	"fmt"
	"strings"
)

// HeaderID names the five headers a compliant request must carry.
type HeaderID int

const (
	HHost HeaderID = iota
	HUpgrade
	HConnection
	HVersion
	HKey
	NumRequired
)

// Wire names (RFC spelling) of the required and the two optional handshake headers.
const (
	NameHost       = "Host"
	NameUpgrade    = "Upgrade"
	NameConnection = "Connection"
	NameVersion    = "Sec-WebSocket-Version"
	NameKey        = "Sec-WebSocket-Key"
	NameProtocol   = "Sec-WebSocket-Protocol"
	NameExtensions = "Sec-WebSocket-Extensions"
)

// RequiredNames is indexed by HeaderID.
var RequiredNames = [NumRequired]string{NameHost, NameUpgrade, NameConnection, NameVersion, NameKey}

func (h HeaderID) String() string {
	if h >= 0 && h < NumRequired {
		return RequiredNames[h]
	}
	return fmt.Sprintf("HeaderID(%d)", int(h))
}

// State is how the generator spelled one required header. It is bookkeeping
// for evidence and for callers that want a particular shape; the acceptance
// model never looks at it (it evaluates the header lines themselves).
type State int

const (
	Absent     State = iota // no line with that name
	Canonical               // RFC spelling of the name, ": " separator, canonical good value
	CaseVaried              // good, name and/or value in another letter case (or an equivalent good value)
	Padded                  // good, SP/HT around the value
	Wrong                   // one line, value violates the requirement
	DupGood                 // two lines, both good
	DupMixed                // two lines, one good and one bad (open in C09)
)

var stateNames = [...]string{"absent", "canonical", "case", "padded", "wrong", "dup-good", "dup-mixed"}

func (s State) String() string {
	if int(s) < len(stateNames) {
		return stateNames[s]
	}
	return fmt.Sprintf("State(%d)", int(s))
}

// Good reports whether the state alone satisfies the requirement.
func (s State) Good() bool { return s == Canonical || s == CaseVaried || s == Padded || s == DupGood }

// Line is one header line: Name ":" Lead Value Trail EOL. With NoColon the
// line is rendered as Name EOL only (a malformed header line).
type Line struct {
	Name    string
	Lead    string // blanks between the colon and the value (canonical: one SP)
	Value   string
	Trail   string // blanks after the value
	EOL     string // "\r\n" or "\n"
	NoColon bool
}

// Request is a structured opening-handshake request.
//
// Rendering: Method SP Target [SP Version] LineEOL, the header lines in order,
// EndEOL. With NoVersion the request line has two parts only.
type Request struct {
	Method    string
	Target    string
	Version   string // the version token, e.g. "HTTP/1.1"
	NoVersion bool
	LineEOL   string
	Lines     []Line
	EndEOL    string // the line end of the terminating blank line

	// States is the generator's note about each required header (see State).
	States [NumRequired]State
}

// Render returns the request bytes.
func (r *Request) Render() []byte {
	var b strings.Builder
	b.WriteString(r.Method)
	b.WriteByte(' ')
	b.WriteString(r.Target)
	if !r.NoVersion {
		b.WriteByte(' ')
		b.WriteString(r.Version)
	}
	b.WriteString(eol(r.LineEOL))
	for _, l := range r.Lines {
		b.WriteString(l.Name)
		if !l.NoColon {
			b.WriteByte(':')
			b.WriteString(l.Lead)
			b.WriteString(l.Value)
			b.WriteString(l.Trail)
		}
		b.WriteString(eol(l.EOL))
	}
	b.WriteString(eol(r.EndEOL))
	return []byte(b.String())
}

func eol(s string) string {
	if s == "" {
		return "\r\n"
	}
	return s
}

// String renders the request with escapes, for messages.
func (r *Request) String() string { return fmt.Sprintf("%q", r.Render()) }

// Clone returns a deep copy.
func (r *Request) Clone() *Request {
	c := *r
	c.Lines = append([]Line(nil), r.Lines...)
	return &c
}

// Values returns the values (without the padding) of all lines named name
// (ASCII case-insensitive), in order of appearance.
func (r *Request) Values(name string) []string {
	var out []string
	for _, l := range r.Lines {
		if !l.NoColon && asciiEqualFold(l.Name, name) {
			out = append(out, l.Value)
		}
	}
	return out
}

// MaxLineLen is the length of the longest rendered line including its line end.
func (r *Request) MaxLineLen() int {
	m := len(r.Method) + 1 + len(r.Target) + 1 + len(r.Version) + 2
	for _, l := range r.Lines {
		if n := len(l.Name) + 1 + len(l.Lead) + len(l.Value) + len(l.Trail) + 2; n > m {
			m = n
		}
	}
	return m
}

// EOLStyle is "crlf", "lf" or "mixed".
func (r *Request) EOLStyle() string {
	crlf, lf := 0, 0
	count := func(s string) {
		if eol(s) == "\n" {
			lf++
		} else {
			crlf++
		}
	}
	count(r.LineEOL)
	count(r.EndEOL)
	for _, l := range r.Lines {
		count(l.EOL)
	}
	switch {
	case lf == 0:
		return "crlf"
	case crlf == 0:
		return "lf"
	}
	return "mixed"
}

// Valid returns the plain canonical request every client library would send:
// GET target HTTP/1.1, the five headers in RFC spelling, CRLF line ends.
func Valid(target, host, key string) *Request {
	r := &Request{Method: "GET", Target: target, Version: "HTTP/1.1", LineEOL: "\r\n", EndEOL: "\r\n"}
	add := func(n, v string) { r.Lines = append(r.Lines, Line{Name: n, Lead: " ", Value: v, EOL: "\r\n"}) }
	add(NameHost, host)
	add(NameUpgrade, "websocket")
	add(NameConnection, "Upgrade")
	add(NameVersion, "13")
	add(NameKey, key)
	for i := range r.States {
		r.States[i] = Canonical
	}
	return r
}

// Add appends a canonical "Name: value" CRLF line and returns r.
func (r *Request) Add(name, value string) *Request {
	r.Lines = append(r.Lines, Line{Name: name, Lead: " ", Value: value, EOL: "\r\n"})
	return r
}

// Drop removes every line named name (ASCII case-insensitive) and returns r.
func (r *Request) Drop(name string) *Request {
	out := r.Lines[:0:0]
	for _, l := range r.Lines {
		if l.NoColon || !asciiEqualFold(l.Name, name) {
			out = append(out, l)
		}
	}
	r.Lines = out
	return r
}

// Set replaces the value of the first line named name (appending one if there
// is none) and returns r.
func (r *Request) Set(name, value string) *Request {
	for i, l := range r.Lines {
		if !l.NoColon && asciiEqualFold(l.Name, name) {
			r.Lines[i].Value = value
			return r
		}
	}
	return r.Add(name, value)
}

func asciiLower(c byte) byte {
	if 'A' <= c && c <= 'Z' {
		return c + ('a' - 'A')
	}
	return c
}

// asciiEqualFold compares two strings ignoring the case of ASCII letters only.
func asciiEqualFold(a, b string) bool {
	if len(a) != len(b) {
		return false
	}
	for i := 0; i < len(a); i++ {
		if asciiLower(a[i]) != asciiLower(b[i]) {
			return false
		}
	}
	return true
}
