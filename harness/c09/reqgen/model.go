package reqgen

import (
	"fmt"
	"sort"
	"strings"
)

// Kind selects the upgrader a Config describes.
type Kind int

const (
	Raw  Kind = iota // ws.Upgrader over an io.ReadWriter
	HTTP             // ws.HTTPUpgrader behind net/http's request parser
)

func (k Kind) String() string {
	if k == HTTP {
		return "http"
	}
	return "raw"
}

// HeaderKV is one response header the user configured.
type HeaderKV struct{ Name, Value string }

// OutcomeKind is what a user callback does.
type OutcomeKind int

const (
	CbNil    OutcomeKind = iota // callback not set
	CbAccept                    // returns nil (OnBeforeUpgrade: a non-nil header and nil)
	CbError                     // returns a plain error: the handshake must fail with 500
	CbReject                    // returns ws.RejectConnectionError(status, headers, reason)
)

// ErrValueKind is the dynamic type of a plain (non-rejection) error value a
// callback returns. Some are not comparable/hashable: the library may compare
// an error with its own sentinels but must not hash it or compare it with a
// value of its own type.
type ErrValueKind int

const (
	ErrNew         ErrValueKind = iota // errors.New
	ErrWrapped                         // fmt.Errorf("...: %w", errors.New(...))
	ErrValueStruct                     // a comparable struct value (not a pointer)
	ErrSliceStruct                     // a struct value holding a slice: not comparable
	ErrSlice                           // type fieldErrors []string: not comparable
	ErrMap                             // a map type: not comparable
	ErrFunc                            // a func type: not comparable
	ErrTypedNil                        // a nil *T in the error interface; T's Error method handles nil
	NumErrValueKinds
)

func (k ErrValueKind) String() string {
	return [...]string{"errors.New", "fmt.Errorf-%w", "struct-value", "struct-with-slice", "slice-type", "map-type", "func-type", "typed-nil-pointer"}[k]
}

// Outcome is the (constant) behaviour of one callback.
type Outcome struct {
	ErrKind ErrValueKind // CbError: what kind of value the plain error is
	Kind    OutcomeKind
	Status  int        // CbReject: the chosen status; 0 = built without ws.RejectionStatus (answered with 500)
	Reason  string     // CbError/CbReject: the error text
	Headers []HeaderKV // CbReject: rejection headers; CbAccept on OnBeforeUpgrade: the headers it returns
}

// Fails reports whether the callback objects.
func (o Outcome) Fails() bool { return o.Kind == CbError || o.Kind == CbReject }

// WantStatus is the HTTP status the property promises when this callback objects.
func (o Outcome) WantStatus() int {
	if o.Kind == CbReject && o.Status != 0 {
		return o.Status
	}
	return 500 // plain error, or a rejection that chose no status
}

func (o Outcome) String() string {
	switch o.Kind {
	case CbNil:
		return "nil"
	case CbAccept:
		return "accept"
	case CbError:
		return "error(" + o.ErrKind.String() + ")"
	}
	if o.Status == 0 {
		return "reject(no status)"
	}
	return fmt.Sprintf("reject(%d)", o.Status)
}

// ExtMode selects how the upgrader treats Sec-WebSocket-Extensions.
type ExtMode int

const (
	ExtNone      ExtMode = iota // neither Extension nor Negotiate set: the header is ignored
	ExtSelector                 // the deprecated Extension func(httphead.Option) bool
	ExtNegotiate                // Negotiate func(httphead.Option) (httphead.Option, error)
	ExtCustom                   // ws.Upgrader only: ExtensionCustom, a harness-owned parser (see CustomExtensions)
)

func (m ExtMode) String() string { return [...]string{"none", "selector", "negotiate", "custom"}[m] }

// ExtAct is what the configured selector/negotiator does with an offer of a given name.
type ExtAct int

const (
	ExtDecline     ExtAct = iota // selector false / negotiator returns the zero option
	ExtAcceptAll                 // accept with all offered parameters
	ExtAcceptFirst               // negotiator: accept with the first offered parameter only
	ExtAcceptBare                // negotiator: accept without parameters
	ExtPlainError                // negotiator returns a plain error (500)
	ExtReject                    // negotiator returns RejectConnectionError(status, headers, reason)
)

// ExtPolicy is the behaviour for one extension name. Names without a policy are declined.
type ExtPolicy struct {
	ErrKind ErrValueKind // ExtPlainError: what kind of value the error is
	Act     ExtAct
	Status  int
	Reason  string
	Headers []HeaderKV
}

// Accepts reports whether the offer is accepted in mode m.
func (p ExtPolicy) Accepts(m ExtMode) bool {
	switch p.Act {
	case ExtAcceptAll, ExtAcceptFirst, ExtAcceptBare:
		return true
	case ExtPlainError, ExtReject:
		return false
	}
	return false
}

// fails reports whether the policy is an error in mode m (errors exist only for Negotiate).
func (p ExtPolicy) fails(m ExtMode) bool {
	return m == ExtNegotiate && (p.Act == ExtPlainError || p.Act == ExtReject)
}

func (p ExtPolicy) wantStatus() int {
	if p.Act == ExtReject && p.Status != 0 {
		return p.Status
	}
	return 500
}

// HeaderForm is the adapter used for Upgrader.Header.
type HeaderForm int

const (
	HeaderNone HeaderForm = iota
	HeaderHTTP
	HeaderString
	HeaderBytes
	HeaderFunc
)

// Config describes an upgrader configuration in library-independent terms.
// The On* outcomes exist only for Kind == Raw (ws.HTTPUpgrader has no such
// callbacks; Classify and the builders ignore them for Kind == HTTP).
type Config struct {
	Kind              Kind
	ReadBuf, WriteBuf int // Raw: Read/WriteBufferSize (0 = default); HTTP: WriteBuf sizes the hijacked bufio.Writer

	// ProtoHelper (ws.HTTPUpgrader only): build the Protocol selector with the
	// library's ready-made helpers instead of a harness closure; the reference
	// stays AcceptsProtocol (exact, case-sensitive membership in Protocols).
	ProtoHelper ProtoHelperMode

	HasProtocol bool     // a Protocol selector is set
	Protocols   []string // ... and accepts exactly these names

	ExtMode ExtMode
	Ext     map[string]ExtPolicy
	// ExtSelectorAlso (with ExtCustom): Extension is set as well, to a
	// selector that takes every offer; the documentation says ExtensionCustom
	// is used instead of it.
	ExtSelectorAlso bool

	// ProtoCustom (ws.Upgrader only): ProtocolCustom is set to the
	// harness-owned parser CustomProtocol; "if ProtocolCustom is set, it used
	// instead of Protocol function" (both may be set).
	ProtoCustom     ProtoCustomMode
	CustomProtocols []string // the names the custom parser accepts (ProtoCustomLast)

	OnRequest, OnHost, OnHeader, OnBeforeUpgrade Outcome

	HeaderForm HeaderForm
	Header     []HeaderKV // extra response headers, "written in any result of handshake"
}

// ProtoCustomMode selects the behaviour of the harness-owned ProtocolCustom hook.
type ProtoCustomMode int

const (
	ProtoCustomNone  ProtoCustomMode = iota
	ProtoCustomLast                  // picks the LAST offered token it accepts
	ProtoCustomFixed                 // answers FixedProtocol whatever is offered
)

func (m ProtoCustomMode) String() string { return [...]string{"none", "last", "fixed"}[m] }

// FixedProtocol is what a ProtoCustomFixed hook returns.
const FixedProtocol = "fixed.v1"

// CustomProtocol is the ProtocolCustom hook as a pure function of the header
// value (blanks around it already removed): the value is malformed (ok=false)
// unless it is a comma list of tokens with optional SP/HT around them.
func (c *Config) CustomProtocol(value string) (string, bool) {
	if value == "" {
		return "", false
	}
	pick := ""
	for _, e := range strings.Split(value, ",") {
		e = TrimBlanks(e)
		if !IsToken(e) {
			return "", false
		}
		for _, a := range c.CustomProtocols {
			if a == e {
				pick = e
			}
		}
	}
	if c.ProtoCustom == ProtoCustomFixed {
		return FixedProtocol, true
	}
	return pick, true
}

// CustomExtensions is the ExtensionCustom hook as a pure function of the
// header value: a value that is not a plain option list (StrictOptions) is
// malformed; of the others every offer whose policy accepts is taken, with all
// its parameters (ExtAcceptAll), the first (ExtAcceptFirst) or none (ExtAcceptBare).
func (c *Config) CustomExtensions(value string) ([]Option, bool) {
	offers, strict := StrictOptions(value)
	if !strict {
		return nil, false
	}
	var out []Option
	for _, o := range offers {
		p, ok := c.Ext[o.Name]
		if !ok || !p.Accepts(ExtCustom) {
			continue
		}
		a := Option{Name: o.Name}
		switch {
		case p.Act == ExtAcceptAll:
			a.Params = append(a.Params, o.Params...)
		case p.Act == ExtAcceptFirst && len(o.Params) > 0:
			a.Params = append(a.Params, o.Params[0])
		}
		out = append(out, a)
	}
	return out, true
}

func (c *Config) extMode() ExtMode {
	if c.Kind == HTTP && c.ExtMode == ExtCustom {
		return ExtNone
	}
	return c.ExtMode
}

// ProtoHelperMode says how HTTPUpgrader.Protocol is built.
type ProtoHelperMode int

const (
	ProtoClosure   ProtoHelperMode = iota // harness closure over Protocols
	ProtoFromSlice                        // ws.SelectFromSlice(Protocols) (a linear scan up to 16 names, a map above)
	ProtoEqual                            // ws.SelectEqual(Protocols[0]); Protocols has exactly one name
)

func (m ProtoHelperMode) String() string {
	return [...]string{"closure", "SelectFromSlice", "SelectEqual"}[m]
}

// AcceptsProtocol is the configured selector.
func (c *Config) AcceptsProtocol(p string) bool {
	for _, q := range c.Protocols {
		if p == q {
			return true
		}
	}
	return false
}

// VerdictKind is the model's classification.
type VerdictKind int

const (
	MustSucceed VerdictKind = iota
	MustFail
	Open
)

func (k VerdictKind) String() string { return [...]string{"must-succeed", "must-fail", "open"}[k] }

// Verdict is what property C09 says about one (request, configuration) pair.
type Verdict struct {
	Kind VerdictKind

	// MustFail: the acceptable HTTP statuses (any status of any broken
	// requirement; precedence is not part of the property).
	Statuses []int
	// LineParsed: the request line is `token SP target SP HTTP/digits.digits`;
	// only then does the property promise an error response on failure.
	LineParsed bool
	// Wrong lists the broken requirements, OpenWhy the reasons for leaving the case open.
	Wrong   []string
	OpenWhy []string
	// CertainFail: Kind == Open but at least one requirement is definitely
	// broken, so success is still forbidden (no status is asserted).
	CertainFail bool

	// UnicodeFoldUpgrade: some Upgrade line carries a value that is not
	// "websocket" in any letter case but equals it under Unicode simple case
	// folding (U+017F LONG S for s, U+212A KELVIN SIGN for k). This is the
	// predicate of finding C09/upgrade-value-unicode-fold.
	UnicodeFoldUpgrade bool

	// Keys are the values of all Sec-WebSocket-Key lines of length 24; on any
	// success the accept value must belong to one of them.
	Keys []string
	// ProtocolKnown: every Sec-WebSocket-Protocol line is a strict token list
	// (or no selector is configured); then Protocol is the subprotocol that must be
	// returned and sent on success ("" = none).
	ProtocolKnown bool
	Protocol      string
	// OffersKnown: every Sec-WebSocket-Extensions line is a strict option list;
	// Offers are the client's offers in order.
	OffersKnown bool
	Offers      []Option
	// ExtExact: ExtensionCustom decides; on success the returned and the sent
	// extensions must be exactly ExpectExt (what the hook returned).
	ExtExact  bool
	ExpectExt []Option
	// HTTP2ToHTTPUpgrader: a request whose major version is not 1 given to
	// ws.HTTPUpgrader (must-fail 505 by "HTTP/1.1 (or a later 1.x)"); the
	// predicate of finding C09/httpupgrader-accepts-http2-version.
	HTTP2ToHTTPUpgrader bool
	// HTInList: a Connection value, or a Sec-WebSocket-Protocol /
	// Sec-WebSocket-Extensions value the configuration looks at, is a plain
	// list with an HT next to a separator; the predicate of finding
	// C09/ht-inside-list-not-whitespace.
	HTInList bool
	// ExtLines describes each Sec-WebSocket-Extensions line in order: "fail"
	// (a plain option list in which the negotiator objects to an offer), "ok"
	// (plain list, no objection) or "odd" (not a plain option list).
	ExtLines []string
}

// Allows reports whether status is acceptable for a MustFail verdict.
func (v *Verdict) Allows(status int) bool {
	for _, s := range v.Statuses {
		if s == status {
			return true
		}
	}
	return false
}

func (v Verdict) String() string {
	switch v.Kind {
	case MustSucceed:
		return fmt.Sprintf("must-succeed(protocol=%q)", v.Protocol)
	case MustFail:
		return fmt.Sprintf("must-fail%v because %s", v.Statuses, strings.Join(v.Wrong, "; "))
	}
	return fmt.Sprintf("open(%s; certainFail=%v)", strings.Join(v.OpenWhy, "; "), v.CertainFail)
}

type valueClass int

const (
	vGood valueClass = iota
	vBad
	vOpen
)

// classifyValue evaluates one (blank-trimmed) value of required header h
// against the property statement.
func classifyValue(h HeaderID, v string) valueClass {
	for i := 0; i < len(v); i++ {
		if c := v[i]; c == '\n' || c == 0 {
			return vOpen
		}
	}
	// A CR inside the value (a stray CR before the line terminator) is part of
	// the value: it makes Upgrade, Version and Key values wrong; for Host and
	// Connection the statement leaves it open.
	switch h {
	case HHost:
		if strings.Contains(v, "\r") {
			return vOpen
		}
		// "carrying Host": any value; the empty value is open (net/http
		// cannot tell it from an absent header).
		if v == "" {
			return vOpen
		}
		return vGood
	case HUpgrade:
		if asciiEqualFold(v, "websocket") {
			return vGood
		}
		// "Upgrade: websocket": anything else is not that value - lists
		// ("websocket, h2c"), and values that only match under Unicode
		// folding (see UnicodeFoldUpgrade)
		return vBad
	case HConnection:
		// "a Connection header containing the upgrade token": a comma list,
		// blanks (SP/HT) around the members ignored, empty members ignored
		toks, strict := ListTokens(v)
		if !strict {
			return vOpen
		}
		for _, t := range toks {
			if asciiEqualFold(t, "upgrade") {
				return vGood
			}
		}
		return vBad
	case HVersion:
		if v == "13" {
			return vGood
		}
		return vBad
	case HKey:
		if len(v) != 24 {
			return vBad // "a key that is not 24 characters long is always refused"
		}
		if IsKey16(v) {
			return vGood
		}
		return vOpen // 24 characters that are not base64 of 16 bytes: only the length rule is guaranteed
	}
	return vOpen
}

var badStatus = [NumRequired][]int{
	HHost:       {400},
	HUpgrade:    {400},
	HConnection: {400},
	HVersion:    {400, 426},
	HKey:        {400},
}

func isHandshakeName(n string) bool {
	for _, r := range RequiredNames {
		if asciiEqualFold(n, r) {
			return true
		}
	}
	return asciiEqualFold(n, NameProtocol) || asciiEqualFold(n, NameExtensions)
}

// IsUnicodeFoldOnly reports whether v differs from token in more than ASCII
// letter case and yet equals it under Unicode simple case folding.
func IsUnicodeFoldOnly(v, token string) bool {
	return !asciiEqualFold(v, token) && strings.EqualFold(v, token)
}

// lineContent is what a line holds once its terminator - LF with at most one
// CR before it - is taken away: with a bare-LF line end a CR that ends the
// text is part of the terminator, with CRLF it is content.
func lineContent(text, lineEnd string) string {
	if eol(lineEnd) == "\n" && strings.HasSuffix(text, "\r") {
		return text[:len(text)-1]
	}
	return text
}

// Classify is the acceptance model of property C09.
func Classify(r *Request, c *Config) Verdict {
	var v Verdict
	statuses := map[int]bool{}
	wrong := func(what string, st ...int) {
		v.Wrong = append(v.Wrong, what)
		for _, s := range st {
			statuses[s] = true
		}
	}
	open := func(why string) { v.OpenWhy = append(v.OpenWhy, why) }

	// ---- request line
	v.LineParsed = true
	if !IsToken(r.Method) {
		v.LineParsed = false
		wrong("method is not a token", 400, 405)
	} else if r.Method != "GET" {
		wrong("method "+r.Method, 405)
	}
	switch {
	case strings.Contains(r.Target, " ") && !strings.ContainsAny(r.Target, "\r\n") && c.Kind == Raw:
		// not `METHOD SP target SP version`: more than three fields, doubled,
		// leading or trailing spaces. (For HTTPUpgrader net/http decides.)
		v.LineParsed = false
		wrong("request line is not METHOD SP target SP version (extra space)", 400)
	case r.Target == "" || strings.ContainsAny(r.Target, " \t\r\n"):
		v.LineParsed = false
		open("odd request target")
	}
	if r.NoVersion {
		v.LineParsed = false
		wrong("no version token", 400)
	} else {
		switch k, major, minor := ParseVersion(lineContent(r.Version, r.LineEOL)); k {
		case VersionMalformed:
			v.LineParsed = false
			wrong(fmt.Sprintf("malformed version token %q", r.Version), 400)
		case VersionLeadingZero:
			v.LineParsed = false
			open("version with leading zeros")
		case VersionMajorNotOne:
			v.LineParsed = false
			v.HTTP2ToHTTPUpgrader = c.Kind == HTTP
			wrong(fmt.Sprintf("version %q: the major number is not 1", r.Version), 400, 505)
		case VersionHuge:
			v.LineParsed = false
			open("minor version number of more than 18 digits")
		default:
			if major != 1 || minor < 1 {
				// "HTTP/1.1 (or a later 1.x)", for both upgraders
				v.HTTP2ToHTTPUpgrader = c.Kind == HTTP && major >= 2
				wrong("version "+r.Version, 505)
			}
		}
	}

	// ---- header lines
	var copies [NumRequired][]valueClass
	extra := false
	var protoVals, extVals []string
	for _, l := range r.Lines {
		if l.NoColon {
			name := lineContent(l.Name, l.EOL)
			if name == "" {
				// a genuinely empty line ends the header block here: whatever
				// follows is not part of the request head
				open("empty line before the end of the header block (later lines are not part of the head)")
				break
			} else if strings.Trim(name, "\r") == "" && c.Kind == Raw {
				// a would-be blank line with stray CRs before its terminator: the
				// CRs are content, the line is neither empty nor a header
				wrong("line of stray CR (not an empty line, no colon)", 400)
			} else if l.Name == "" || l.Name[0] == ' ' || l.Name[0] == '\t' || strings.ContainsAny(l.Name, ":\r\n") {
				// (a line starting with a blank is a folded continuation to net/http)
				open("odd malformed line")
			} else {
				wrong("header line without colon", 400)
			}
			continue
		}
		lname := l.Name
		if c.Kind == Raw { // "header names ... surrounding blanks ignored"; net/http refuses a blank before the colon itself
			lname = strings.TrimRight(lname, " \t")
		}
		if !IsToken(lname) || strings.Trim(l.Lead, " \t") != "" {
			open("odd header line")
			continue
		}
		// Everything between the colon and the line terminator is the value; a
		// CR that is not part of the terminator belongs to it (so does Trail).
		val := TrimBlanks(lineContent(l.Lead+l.Value+l.Trail, l.EOL))
		oddValue := strings.ContainsAny(val, "\n\x00") || (c.Kind == HTTP && strings.Contains(val, "\r"))
		if oddValue {
			open("line break inside a value")
		}
		known := false
		for h := HeaderID(0); h < NumRequired; h++ {
			if asciiEqualFold(lname, RequiredNames[h]) {
				k := classifyValue(h, val)
				if oddValue {
					k = vOpen
				}
				copies[h] = append(copies[h], k)
				if h == HKey && len(val) == 24 {
					v.Keys = append(v.Keys, val)
				}
				if h == HConnection && k == vGood && HasInnerHT(val) {
					v.HTInList = true
				}
				if h == HUpgrade && IsUnicodeFoldOnly(val, "websocket") {
					v.UnicodeFoldUpgrade = true
				}
				known = true
			}
		}
		switch {
		case known:
		case asciiEqualFold(lname, NameProtocol):
			protoVals = append(protoVals, val)
		case asciiEqualFold(lname, NameExtensions):
			extVals = append(extVals, val)
		default:
			extra = true
		}
	}
	for h := HeaderID(0); h < NumRequired; h++ {
		good, bad, op := 0, 0, 0
		for _, k := range copies[h] {
			switch k {
			case vGood:
				good++
			case vBad:
				bad++
			default:
				op++
			}
		}
		name := RequiredNames[h]
		if h == HHost && c.Kind == HTTP && IsAbsoluteTarget(r.Target) && (len(copies[h]) == 0 || bad+op > 0) {
			// HTTPUpgrader's request is the *http.Request, whose Host net/http
			// fills from an absolute-URI target: without a usable Host header
			// line "carrying Host" is not decided
			open("absolute-URI target without a Host line (net/http takes Host from the target)")
			continue
		}
		switch {
		case len(copies[h]) == 0:
			wrong(name+" absent", badStatus[h]...)
		case op > 0:
			open(name + " value left open by the statement")
			for _, s := range badStatus[h] {
				statuses[s] = true
			}
		case good > 0 && bad > 0:
			open(name + " duplicated with good and bad copies")
			for _, s := range badStatus[h] {
				statuses[s] = true
			}
		case bad > 0:
			wrong(name+" has a wrong value", badStatus[h]...)
		}
	}

	// ---- subprotocol
	v.ProtocolKnown = true
	if c.Kind == Raw && c.ProtoCustom != ProtoCustomNone {
		// the hook replaces the selector; it sees the lines in order until it names a protocol
		for _, pv := range protoVals {
			p, ok := c.CustomProtocol(pv)
			if !ok {
				wrong("ProtocolCustom calls the Sec-WebSocket-Protocol value malformed", 400)
				break
			}
			if p != "" {
				v.Protocol = p
				break
			}
		}
	} else if c.HasProtocol {
		for _, pv := range protoVals {
			toks, strict := ListTokens(pv)
			if strict && len(toks) > 0 && HasInnerHT(pv) {
				v.HTInList = true
			}
			if !strict || len(toks) == 0 {
				v.ProtocolKnown = false
				open("Sec-WebSocket-Protocol value is not a plain token list")
				statuses[400] = true
				break
			}
			if v.Protocol == "" {
				for _, t := range toks {
					if c.AcceptsProtocol(t) {
						v.Protocol = t
						break
					}
				}
			}
		}
		if !v.ProtocolKnown {
			v.Protocol = ""
		}
	}

	// ---- extensions
	v.OffersKnown = true
	for _, ev := range extVals {
		opts, strict := ListOptions(ev)
		if strict && HasInnerHT(ev) && (c.extMode() == ExtSelector || c.extMode() == ExtNegotiate) {
			v.HTInList = true
		}
		kind := "ok"
		if !strict {
			v.OffersKnown = false
			kind = "odd"
		}
		for _, o := range opts {
			if p, ok := c.Ext[o.Name]; ok && p.fails(c.extMode()) {
				kind = "fail"
			}
		}
		v.ExtLines = append(v.ExtLines, kind)
		v.Offers = append(v.Offers, opts...)
	}
	if !v.OffersKnown {
		v.Offers = nil
	}
	if c.extMode() == ExtCustom {
		v.ExtExact = true
		for _, ev := range extVals {
			got, ok := c.CustomExtensions(ev)
			if !ok {
				wrong("ExtensionCustom calls the Sec-WebSocket-Extensions value malformed", 400)
				break
			}
			v.ExpectExt = append(v.ExpectExt, got...)
		}
	} else if c.extMode() != ExtNone {
		if !v.OffersKnown {
			open("Sec-WebSocket-Extensions value is not a plain option list")
			statuses[400] = true
			for _, p := range c.Ext {
				if p.fails(c.extMode()) {
					statuses[p.wantStatus()] = true
				}
			}
		} else {
			var objected []string
			for _, o := range v.Offers {
				if p, ok := c.Ext[o.Name]; ok && p.fails(c.extMode()) {
					objected = append(objected, o.Name)
					statuses[p.wantStatus()] = true
				}
			}
			if len(objected) > 0 {
				wrong("negotiator objects to " + strings.Join(objected, ", "))
			}
		}
	}

	// ---- user callbacks (ws.Upgrader only)
	if c.Kind == Raw {
		if c.OnRequest.Fails() {
			wrong("OnRequest objects", c.OnRequest.WantStatus())
		}
		if c.OnHost.Fails() && len(copies[HHost]) > 0 {
			wrong("OnHost objects", c.OnHost.WantStatus())
		}
		if c.OnHeader.Fails() && extra {
			wrong("OnHeader objects", c.OnHeader.WantStatus())
		}
		if c.OnBeforeUpgrade.Fails() {
			wrong("OnBeforeUpgrade objects", c.OnBeforeUpgrade.WantStatus())
		}
	}

	switch {
	case len(v.OpenWhy) > 0:
		v.Kind = Open
		v.CertainFail = len(v.Wrong) > 0
	case len(v.Wrong) > 0:
		v.Kind = MustFail
	default:
		v.Kind = MustSucceed
	}
	for s := range statuses {
		v.Statuses = append(v.Statuses, s)
	}
	sort.Ints(v.Statuses)
	return v
}
