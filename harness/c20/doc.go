// Package c20 holds the check of property C20 of gobwas/ws: "Dial honours
// cancellation at any moment without poisoning or leaking the conn".
//
// Every case runs inside a testing/synctest bubble (virtual clock, harness-owned
// schedule), so the test files carry a go1.25 build constraint and the package
// is built with the go1.26.8 toolchain named in props.json. This file exists so
// that the package is never empty for the default toolchain.
package c20
