//go:build go1.25

// C20 — Dial honours cancellation at any moment without poisoning or leaking
// the conn. Every case runs in a testing/synctest bubble against a scripted,
// deadline-honouring net.Conn; the oracle works on the conn's call history.
package c20

import (
	"fmt"
	"sort"
	"testing"
	"time"

	"pgregory.net/rapid"

	"verif/harness/hx"
)

func TestMain(m *testing.M) { hx.Main(m, "C20") }

// ---------------------------------------------------------------------------
// shared case runner

type caseDesc struct {
	Scenario *scenario `json:"scenario"`
	IOs      int       `json:"handshake_io_ops"`
	Returned string    `json:"dial_returned_at"`
	Err      string    `json:"err"`
	Outcome  string    `json:"outcome"`
	Log      []string  `json:"conn_log"`
}

func describe(sc *scenario, n int, o *outcome, v verdict) caseDesc {
	d := caseDesc{Scenario: sc, IOs: n, Returned: o.TR.String(), Outcome: v.Outcome, Log: renderLog(o.Log)}
	if !o.Returned {
		d.Returned = "never"
	}
	if o.Err != nil {
		d.Err = o.Err.Error()
	}
	return d
}

// dryRun learns the I/O profile of a configuration: the same dialer and peer,
// background context, no timeout, no cancellation. The number of Read/Write
// calls it saw is the range of I/O indices at which cancellation can land
// (the last one is the blocked call when the peer stalls).
func dryRun(tt *testing.T, sc *scenario) (n int, o *outcome, v verdict) {
	dry := *sc
	dry.Ctx, dry.Deadline, dry.Timeout, dry.Plan = "background", 0, 0, plan{Kind: "never"}
	dry.TimeoutNs = 0
	o = runCase(tt, &dry)
	v = judge(&dry, o)
	return o.AtReturn.IOs, o, v
}

// baseline is the metamorphic companion of the statement: a context that has
// not ended and a timeout that has not elapsed by the time Dial returns must
// not change the result — the handshake that succeeds under the background
// context (dry run, same dialer, same scripted peer) succeeds here too.
func baseline(dry, o *outcome, v verdict) string {
	if dry == nil || dry.Err != nil || dry.Rescued || !dry.Returned || o.Rescued || o.Err == nil {
		return ""
	}
	if v.HasBound && o.TR >= v.Bound {
		return ""
	}
	limit := "no context end and no timeout exist"
	if v.HasBound {
		limit = fmt.Sprintf("the earliest limit (%s) lies at %v", v.BoundKind, v.Bound)
	}
	return fmt.Sprintf("Dial failed with %q at %v although %s; the same handshake succeeds under the background context", o.Err, o.TR, limit)
}

func timeoutClass(sc *scenario) string {
	switch {
	case sc.TimeoutNs < 0:
		return "negative"
	case sc.TimeoutNs > 0:
		return "1ns"
	case sc.Timeout == 0:
		return "none"
	case !sc.hasDeadline():
		return "only-limit"
	case sc.Timeout < sc.Deadline:
		return "shorter-than-ctx-deadline"
	}
	return "longer-than-ctx-deadline"
}

func peerClass(p *peerScript) string {
	switch {
	case p.TLS && p.Gate >= 0 && p.Deliver != 0:
		return fmt.Sprintf("tls/%d-garbage-bytes", p.Garbage)
	case p.TLS && p.Gate >= 0 && !p.EOF:
		return "tls/silent"
	case p.Gate < 0:
		return "never-accepts-writes"
	case p.Deliver == 0 && p.EOF:
		return "closes-without-answer"
	case p.Deliver == 0:
		return "silent"
	}
	s := p.Resp
	if p.Deliver > 0 && p.Deliver <= len(p.Cuts) {
		s += "/partial"
	}
	if p.EOF {
		s += "+eof"
	}
	delayed := p.Gate > 0
	for _, g := range p.Gaps {
		delayed = delayed || g > 0
	}
	if delayed {
		s += "/delayed"
	}
	return s
}

// account records evidence for one judged case.
func account(sc *scenario, n int, o *outcome, v verdict) {
	hx.Eval()
	hx.Class("ctx/" + sc.Ctx)
	hx.Class("scheme/" + map[bool]string{true: "ws-or-wss", false: sc.Scheme}[sc.Scheme == ""])
	hx.Class("entry/" + map[string]string{"": "Dialer.Dial", "package": "ws.Dial+DefaultDialer", "debug": "wsutil.DebugDialer/" + sc.Debug}[sc.Entry])
	if sc.DialIgnoresCtx {
		hx.Class("netdial/ignores-its-context")
	}
	if o.DoneAtObtain {
		hx.Class("netdial/conn-handed-out-with-context-already-done")
	}
	if sc.Peer.TimeoutErr != "" {
		hx.Class("conn/timeout-error-" + sc.Peer.TimeoutErr)
	}
	if sc.Peer.DLFault != "" {
		hx.Class("conn/set-deadline-" + sc.Peer.DLFault)
	}
	if sc.Peer.CloseErr {
		hx.Class("conn/close-fails")
	}
	hx.Class("wrap/" + map[bool]string{true: "none", false: sc.Wrap}[sc.Wrap == ""])
	hx.Class("timeout/" + timeoutClass(sc))
	hx.Class("peer/" + peerClass(&sc.Peer))
	hx.Class("plan/" + sc.Plan.label())
	hx.Class("outcome/" + v.Outcome)
	if sc.Plan.Kind == "io" {
		switch {
		case o.CancelAt < 0:
			hx.Class("io-cancel/not-reached")
		case sc.Plan.IO == n-1:
			hx.Class("io-cancel/at-last-op")
		default:
			hx.Class("io-cancel/at-earlier-op")
		}
	}
	if v.Open != "" {
		hx.Class("open/" + v.Open + "/" + v.Outcome)
	}
	if v.MustCtx {
		hx.Class("must-be-ctx-error")
	}
	if sc.Peer.SlowDL {
		hx.Class("conn/slow-set-deadline")
	}
	if v.HasBound && o.TR >= v.Bound {
		phase := "dial-phase"
		if o.ConnObtained {
			phase = "handshake-phase"
		}
		hx.Class("limit-hit/" + v.BoundKind + "/" + phase)
		// the shape of the repaired defect: the Timeout is the limit, the
		// context is not the background context, the peer stalls
		if v.BoundKind == "timeout" && o.ConnObtained && sc.Ctx != "background" {
			hx.Class("timeout-hit-in-handshake/non-background-ctx")
		}
	}
	if !o.ConnObtained {
		hx.Class("no-conn-obtained")
	}
	if !v.NonTriv {
		return
	}
	hx.Class("nontrivial")
	key := hx.Hash(sc.Peer.DLFault, sc.Peer.CloseErr, sc.DialIgnoresCtx, sc.Debug, sc.Scheme, sc.Entry, sc.Wrap, sc.Ctx, timeoutClass(sc), peerClass(&sc.Peer), sc.RBuf, sc.WBuf, n, sc.Plan.label(), sc.Plan.IO, v.BoundKind, o.AtReturn.IOs, v.Outcome)
	hx.NonTrivial(key, func() interface{} { return describe(sc, n, o, v) })
}

// ---------------------------------------------------------------------------
// generator

func drawConfig(t *rapid.T) *scenario {
	sc := &scenario{}
	sc.Ctx = rapid.SampledFrom([]string{"background", "todo", "cancel", "cancel", "value", "custom", "deadline", "deadline", "cancelcause", "causechild", "deadlinecause", "deadlinecause-child"}).Draw(t, "ctx")
	if sc.hasDeadline() {
		sc.Deadline = 10*rapid.IntRange(0, 9).Draw(t, "ctxDeadline10") + 3
	}
	if rapid.IntRange(0, 2).Draw(t, "hasTimeout") > 0 {
		sc.Timeout = 10*rapid.IntRange(0, 9).Draw(t, "timeout10") + 5
	}
	if rapid.IntRange(0, 11).Draw(t, "oddTimeout") == 0 {
		// a remaining-budget computation that has run out, or has 1 ns left
		sc.Timeout = 0
		sc.TimeoutNs = rapid.SampledFrom([]int64{-1, -int64(5 * time.Millisecond), -int64(time.Hour), 1}).Draw(t, "timeoutNs")
	}
	sc.DialDelay = rapid.SampledFrom([]int{0, 0, 0, 10, 20, 40}).Draw(t, "dialDelay")
	sc.DialFail = rapid.IntRange(0, 24).Draw(t, "dialFail") == 0
	sc.RBuf = rapid.SampledFrom([]int{0, 0, 32, 128}).Draw(t, "rbuf")
	sc.WBuf = rapid.SampledFrom([]int{0, 0, 16, 64, 200}).Draw(t, "wbuf")
	p := &sc.Peer
	p.Resp = rapid.SampledFrom([]string{"valid", "valid", "valid", "valid", "status400", "badaccept", "noupgrade", "garbage"}).Draw(t, "resp")
	p.Cuts = rapid.SliceOfN(rapid.IntRange(1, 999), 0, 4).Draw(t, "cuts")
	sort.Ints(p.Cuts)
	p.Gaps = rapid.SliceOfN(rapid.SampledFrom([]int{0, 0, 0, 10, 20, 50}), 0, 5).Draw(t, "gaps")
	p.Deliver = rapid.SampledFrom([]int{-1, -1, -1, -1, -1, 0, 0, 0, 1, 2}).Draw(t, "deliver")
	p.EOF = rapid.IntRange(0, 9).Draw(t, "peerEOF") == 0
	p.Tail = rapid.SampledFrom([]int{0, 0, 0, 5}).Draw(t, "tail")
	p.Gate = rapid.SampledFrom([]int{0, 0, 0, 0, 0, 10, 30, -1}).Draw(t, "gate")
	p.SlowDL = rapid.IntRange(0, 2).Draw(t, "slowSetDeadline") == 0
	sc.Scheme = rapid.SampledFrom([]string{"", "", "", "", "", "", "", "", "", "WS", "http", "https", "wws", "path", "bad"}).Draw(t, "scheme")
	switch rapid.IntRange(0, 5).Draw(t, "entry") {
	case 0:
		sc.Entry = "package"
	case 1, 2:
		sc.Entry = "debug"
		sc.Debug = rapid.SampledFrom([]string{"both", "both", "req", "resp", "none"}).Draw(t, "debugCallbacks")
	}
	sc.DialIgnoresCtx = rapid.IntRange(0, 5).Draw(t, "netDialIgnoresCtx") == 0
	p.TimeoutErr = rapid.SampledFrom([]string{"", "", "nottemp", "operror"}).Draw(t, "timeoutErr")
	p.DLFault = rapid.SampledFrom([]string{"", "", "", "", "", "err-applied", "err-applied", "err-ignored"}).Draw(t, "setDeadlineFault")
	p.CloseErr = rapid.IntRange(0, 4).Draw(t, "closeFails") == 0
	p.FaultTop = rapid.Bool().Draw(t, "faultAtTopLayer")
	sc.Wrap = rapid.SampledFrom([]string{"", "", "", "", "tlsclient", "wrapconn", "both", "tls-default"}).Draw(t, "wrap")
	if sc.Wrap == "tls-default" {
		// crypto/tls runs its handshake inside the first Write of the upgrade
		// request; the peer is silent, stalls inside a record header, or
		// answers with bytes that are no TLS record.
		sc.TLSNilCfg = rapid.Bool().Draw(t, "tlsNilConfig")
		p.TLS, p.Resp, p.Tail = true, "tlsgarbage", 0
		p.Garbage = rapid.SampledFrom([]int{3, 5, 40}).Draw(t, "garbage")
	}
	return sc
}

func drawPlan(t *rapid.T, sc *scenario, n int) plan {
	if !sc.cancellable() {
		return plan{Kind: "never"}
	}
	kinds := []string{"never", "pre", "at", "at", "dial-return", "after-return"}
	if n > 0 {
		kinds = append(kinds, "io", "io", "io", "io", "io", "io")
	}
	pl := plan{Kind: rapid.SampledFrom(kinds).Draw(t, "plan")}
	switch pl.Kind {
	case "at":
		pl.At = 10*rapid.IntRange(0, 9).Draw(t, "at10") + 7
	case "io":
		if rapid.IntRange(0, 2).Draw(t, "atLastOp") == 0 {
			pl.IO = n - 1
		} else {
			pl.IO = rapid.IntRange(0, n-1).Draw(t, "io")
		}
		pl.Before = rapid.Bool().Draw(t, "before")
		pl.Forced = true
		// Only at the very end of the handshake I/O does the statement allow
		// both results, so only there may the harness leave the race between
		// the watcher and the handshake to the scheduler.
		if pl.IO == n-1 && !pl.Before {
			pl.Forced = rapid.Bool().Draw(t, "forced")
		}
	}
	return pl
}

// ---------------------------------------------------------------------------
// properties

// TestCancelAnywhere: random configuration × random cancellation plan.
func TestCancelAnywhere(t *testing.T) {
	hx.Check(t, 1, func(rt *rapid.T) {
		sc := drawConfig(rt)
		n, dryOut, dryV := dryRun(t, sc)
		if dryV.Infra != "" {
			rt.Fatalf("VERIF-INFRA: %s", dryV.Infra)
		}
		if dryV.Violation != "" {
			dry := *sc
			dry.Ctx, dry.Deadline, dry.Timeout, dry.Plan = "background", 0, 0, plan{Kind: "never"}
			dry.TimeoutNs = 0
			rt.Fatalf("%s\ncase (background context, no timeout): %s", dryV.Violation, hx.JSON(describe(&dry, n, dryOut, dryV)))
		}
		sc.Plan = drawPlan(rt, sc, n)
		o := runCase(t, sc)
		v := judge(sc, o)
		if v.Infra != "" {
			rt.Fatalf("VERIF-INFRA: %s\ncase: %s", v.Infra, hx.JSON(describe(sc, n, o, v)))
		}
		if v.Violation == "" {
			v.Violation = baseline(dryOut, o, v)
		}
		if v.Violation != "" {
			rt.Fatalf("%s\ncase: %s", v.Violation, hx.JSON(describe(sc, n, o, v)))
		}
		account(sc, n, o, v)
	})
}

// TestStalledPeerLimits concentrates on "Dial returns once the context ends
// or the dial timeout elapses, whichever is first": the peer always stalls at
// some point of the handshake, at least one limit exists, and every kind of
// context is combined with every kind of limit.
func TestStalledPeerLimits(t *testing.T) {
	hx.Check(t, 0.5, func(rt *rapid.T) {
		sc := drawConfig(rt)
		sc.DialFail = false
		if sc.refused() {
			sc.Scheme = ""
		}
		if sc.Peer.DLFault == "err-ignored" {
			sc.Peer.DLFault = "err-applied" // this test is about conns that honour deadlines
		}
		sc.Peer.EOF = false
		switch rapid.IntRange(0, 3).Draw(rt, "stall") {
		case 0:
			sc.Peer.Deliver = 0
		case 1:
			sc.Peer.Gate = -1
		case 2:
			sc.Peer.Cuts = []int{300, 700}
			sc.Peer.Deliver = rapid.IntRange(1, 2).Draw(rt, "partial")
		default:
			sc.Peer.Gaps = []int{100 + 10*rapid.IntRange(0, 5).Draw(rt, "lateAnswer")}
			sc.Peer.Deliver = -1
		}
		n, _, _ := dryRun(t, sc)
		pl := plan{Kind: "never"}
		if sc.cancellable() && rapid.Bool().Draw(rt, "timedCancel") {
			pl = plan{Kind: "at", At: 10*rapid.IntRange(0, 9).Draw(rt, "at10") + 7}
		}
		if sc.Timeout == 0 && sc.TimeoutNs == 0 && !sc.hasDeadline() && pl.Kind == "never" {
			sc.Timeout = 10*rapid.IntRange(0, 9).Draw(rt, "timeout10b") + 5
		}
		sc.Plan = pl
		o := runCase(t, sc)
		v := judge(sc, o)
		if v.Infra != "" {
			rt.Fatalf("VERIF-INFRA: %s\ncase: %s", v.Infra, hx.JSON(describe(sc, n, o, v)))
		}
		if v.Violation != "" {
			rt.Fatalf("%s\ncase: %s", v.Violation, hx.JSON(describe(sc, n, o, v)))
		}
		if !v.HasBound {
			rt.Fatalf("VERIF-INFRA: generator produced a case without any limit: %s", hx.JSON(sc))
		}
		account(sc, n, o, v)
	})
}

// TestSuccessRace concentrates on "exactly as the handshake completes": the
// peer answers with a valid response (any chunking, delays, slow reader), and
// the end of the context or the timeout is placed at the last Read (before it,
// inside it with the watcher forced to act first, inside it unforced), right
// after Dial returned, or on the timer instants adjacent to the completion
// time learnt from the dry run.
func TestSuccessRace(t *testing.T) {
	hx.Check(t, 0.5, func(rt *rapid.T) {
		sc := drawConfig(rt)
		sc.DialFail = false
		sc.Timeout, sc.TimeoutNs = 0, 0
		if sc.refused() {
			sc.Scheme = "WS"
		}
		if sc.Wrap == "tls-default" {
			sc.Wrap, sc.Peer.TLS = "both", false
		}
		sc.Peer.Resp, sc.Peer.Deliver, sc.Peer.EOF = "valid", -1, false
		if sc.Peer.Gate < 0 {
			sc.Peer.Gate = 10
		}
		n, dryOut, dryV := dryRun(t, sc)
		if dryV.Violation != "" || dryV.Infra != "" || dryOut.Err != nil {
			dry := *sc
			dry.Ctx, dry.Deadline, dry.Timeout, dry.Plan = "background", 0, 0, plan{Kind: "never"}
			dry.TimeoutNs = 0
			rt.Fatalf("undisturbed handshake with a valid response: err=%v %s%s\ncase: %s", dryOut.Err, dryV.Violation, dryV.Infra, hx.JSON(describe(&dry, n, dryOut, dryV)))
		}
		done := int(dryOut.TR / time.Millisecond) // multiple of 10
		near := func(res int) int {               // the instant ≡ res (mod 10) just before or just after completion
			if done >= 10 && rapid.Bool().Draw(rt, "justBefore") {
				return done - 10 + res
			}
			return done + res
		}
		sc.Plan = plan{Kind: "never"}
		switch rapid.IntRange(0, 6).Draw(rt, "race") {
		case 0:
			sc.Ctx = rapid.SampledFrom([]string{"cancel", "value", "custom", "deadline", "cancelcause", "causechild", "deadlinecause", "deadlinecause-child"}).Draw(rt, "cctx")
			sc.Plan = plan{Kind: "io", IO: n - 1, Before: true, Forced: true}
		case 1:
			sc.Ctx = rapid.SampledFrom([]string{"cancel", "value", "custom", "deadline", "cancelcause", "causechild", "deadlinecause", "deadlinecause-child"}).Draw(rt, "cctx")
			sc.Plan = plan{Kind: "io", IO: n - 1, Forced: true}
		case 2:
			sc.Ctx = rapid.SampledFrom([]string{"cancel", "value", "custom", "deadline", "cancelcause", "causechild", "deadlinecause", "deadlinecause-child"}).Draw(rt, "cctx")
			sc.Plan = plan{Kind: "io", IO: n - 1}
		case 3:
			sc.Ctx = rapid.SampledFrom([]string{"cancel", "value", "custom", "deadline", "cancelcause", "causechild", "deadlinecause", "deadlinecause-child"}).Draw(rt, "cctx")
			sc.Plan = plan{Kind: "after-return"}
		case 4:
			sc.Ctx, sc.Deadline = rapid.SampledFrom([]string{"deadline", "deadlinecause", "deadlinecause-child"}).Draw(rt, "dctx"), near(3)
		case 5:
			sc.Timeout = near(5) // with whatever context was drawn
		default:
			sc.Ctx = rapid.SampledFrom([]string{"cancel", "value", "custom", "cancelcause", "causechild"}).Draw(rt, "cctx")
			sc.Plan = plan{Kind: "at", At: near(7)}
		}
		if sc.hasDeadline() && sc.Deadline < done+100 && sc.Plan.Kind != "never" {
			sc.Deadline = done + 103 // the explicit cancel is the event of this case
		}
		if sc.hasDeadline() && sc.Deadline == 0 {
			sc.Deadline = done + 103
		}
		o := runCase(t, sc)
		v := judge(sc, o)
		if v.Infra != "" {
			rt.Fatalf("VERIF-INFRA: %s\ncase: %s", v.Infra, hx.JSON(describe(sc, n, o, v)))
		}
		if v.Violation == "" {
			v.Violation = baseline(dryOut, o, v)
		}
		if v.Violation != "" {
			rt.Fatalf("%s\ncase: %s", v.Violation, hx.JSON(describe(sc, n, o, v)))
		}
		account(sc, n, o, v)
		hx.Class("race/" + sc.Plan.label() + "/" + v.Outcome)
	})
}

// ---------------------------------------------------------------------------
// fault enumeration

type enumPeer struct {
	name string
	p    peerScript
}

var enumPeers = []enumPeer{
	{"valid/1-chunk", peerScript{Resp: "valid", Deliver: -1}},
	{"valid/3-chunks", peerScript{Resp: "valid", Cuts: []int{200, 750}, Deliver: -1}},
	{"valid/3-chunks-delayed+tail", peerScript{Resp: "valid", Cuts: []int{100, 900}, Gaps: []int{10, 0, 20}, Deliver: -1, Tail: 5}},
	{"valid/slow-reader", peerScript{Resp: "valid", Cuts: []int{500}, Deliver: -1, Gate: 10}},
	{"badaccept/2-chunks", peerScript{Resp: "badaccept", Cuts: []int{400}, Deliver: -1}},
	{"status400", peerScript{Resp: "status400", Deliver: -1}},
	{"noupgrade/delayed", peerScript{Resp: "noupgrade", Cuts: []int{600}, Gaps: []int{0, 10}, Deliver: -1}},
	{"partial-then-silent", peerScript{Resp: "valid", Cuts: []int{300, 700}, Deliver: 2}},
	{"silent", peerScript{Resp: "valid", Deliver: 0}},
	{"never-accepts-writes", peerScript{Resp: "valid", Deliver: -1, Gate: -1}},
	{"eof-after-first-chunk", peerScript{Resp: "valid", Cuts: []int{500}, Deliver: 1, EOF: true}},
}

type enumCfg struct {
	ctx        string
	deadline   int
	timeout    int
	dialDelay  int
	rbuf, wbuf int
	slowDL     bool
	wrap       string
	debug      string // wsutil.DebugDialer with these callbacks
	ignoreCtx  bool   // NetDial ignores its context
	timeoutErr string
	dlFault    string
	closeErr   bool
	faultTop   bool
}

// peers of the configurations that dial wss with crypto/tls's own client
var tlsPeers = []enumPeer{
	{"tls/silent", peerScript{TLS: true, Resp: "tlsgarbage", Deliver: 0}},
	{"tls/3-bytes-then-silent", peerScript{TLS: true, Resp: "tlsgarbage", Garbage: 3, Deliver: -1, Gaps: []int{10}}},
	{"tls/garbage", peerScript{TLS: true, Resp: "tlsgarbage", Garbage: 40, Cuts: []int{100}, Gaps: []int{0, 10}, Deliver: -1}},
	{"tls/never-accepts-writes", peerScript{TLS: true, Resp: "tlsgarbage", Deliver: 0, Gate: -1}},
	{"tls/closes", peerScript{TLS: true, Resp: "tlsgarbage", Deliver: 0, EOF: true}},
}

// The limits of these configurations lie beyond every peer event, so the
// explicit cancellation is what ends the context.
var enumCfgs = []enumCfg{
	{ctx: "cancel"},
	{ctx: "cancel", timeout: 995, dialDelay: 10, rbuf: 32, wbuf: 64},
	{ctx: "deadline", deadline: 993, wbuf: 16},
	{ctx: "deadline", deadline: 993, timeout: 985, rbuf: 128},
	{ctx: "custom", timeout: 995, wbuf: 200},
	{ctx: "value", rbuf: 32},
	{ctx: "cancel", slowDL: true},
	{ctx: "cancelcause"},
	{ctx: "cancel", debug: "both"},
	{ctx: "deadline", deadline: 993, timeout: 985, debug: "resp", wrap: "both"},
	{ctx: "value", debug: "req", wbuf: 64, slowDL: true},
	{ctx: "cancel", debug: "both", wrap: "tls-default"},
	{ctx: "cancel", ignoreCtx: true, dialDelay: 10},
	{ctx: "cancel", timeoutErr: "operror"},
	{ctx: "cancel", dlFault: "err-applied"},
	{ctx: "cancel", dlFault: "err-ignored", closeErr: true},
	{ctx: "deadline", deadline: 993, timeout: 985, dlFault: "err-applied", closeErr: true, wrap: "both", faultTop: true},
	{ctx: "value", closeErr: true, wrap: "wrapconn", faultTop: true},
	{ctx: "cancelcause", dlFault: "err-ignored", wrap: "tlsclient", faultTop: true, debug: "both"},
	{ctx: "custom", timeout: 995, timeoutErr: "nottemp", debug: "none"},
	{ctx: "causechild", timeout: 995, wbuf: 64},
	{ctx: "deadlinecause", deadline: 993, timeout: 985},
	{ctx: "deadlinecause-child", deadline: 993, slowDL: true},
	{ctx: "cancel", wrap: "tlsclient"},
	{ctx: "value", wrap: "wrapconn", timeout: 995},
	{ctx: "deadline", deadline: 993, wrap: "both", wbuf: 64, slowDL: true},
	{ctx: "cancel", wrap: "tls-default"},
	{ctx: "custom", timeout: 995, wrap: "tls-default", slowDL: true},
	{ctx: "deadline", deadline: 993, timeout: 985, wbuf: 64, slowDL: true},
}

// TestEveryIOIndex enumerates, for a fixed set of configurations and peers,
// cancellation before and after every single Read/Write of the handshake
// (forced), the unforced race at the last one, and the plans around the
// handshake (before Dial, when NetDial hands out the conn, right after Dial
// returned, never).
func TestEveryIOIndex(t *testing.T) {
	var total int64
	idx := 0
	for _, cfg := range enumCfgs {
		peers := enumPeers
		if cfg.wrap == "tls-default" {
			peers = tlsPeers
		}
		for _, ep := range peers {
			idx++
			if !hx.Mine(idx) {
				continue
			}
			base := scenario{Ctx: cfg.ctx, Deadline: cfg.deadline, Timeout: cfg.timeout, DialDelay: cfg.dialDelay, RBuf: cfg.rbuf, WBuf: cfg.wbuf, Peer: ep.p, Wrap: cfg.wrap}
			if idx%3 == 0 {
				base.Entry = "package"
			}
			if cfg.debug != "" {
				base.Entry, base.Debug = "debug", cfg.debug
			}
			base.DialIgnoresCtx = cfg.ignoreCtx
			base.Peer.TimeoutErr = cfg.timeoutErr
			base.Peer.DLFault, base.Peer.CloseErr, base.Peer.FaultTop = cfg.dlFault, cfg.closeErr, cfg.faultTop
			base.Peer.SlowDL = cfg.slowDL
			n, dryOut, dryV := dryRun(t, &base)
			if dryV.Violation != "" || dryV.Infra != "" {
				hx.Failf(t, describe(&base, n, dryOut, dryV), "dry run (background context): %s%s", dryV.Violation, dryV.Infra)
				return
			}
			if n == 0 {
				hx.Failf(t, base, "VERIF-INFRA: the handshake performed no I/O")
				return
			}
			plans := []plan{{Kind: "never"}, {Kind: "pre"}, {Kind: "dial-return"}, {Kind: "after-return"}}
			for i := 0; i < n; i++ {
				plans = append(plans, plan{Kind: "io", IO: i, Before: true, Forced: true}, plan{Kind: "io", IO: i, Forced: true})
			}
			reps := hx.Pick(4, 32) // the unforced race is decided by the scheduler: sample it repeatedly
			for r := 0; r < reps; r++ {
				plans = append(plans, plan{Kind: "io", IO: n - 1})
			}
			for _, pl := range plans {
				sc := base
				sc.Plan = pl
				o := runCase(t, &sc)
				v := judge(&sc, o)
				if v.Infra != "" {
					hx.Failf(t, describe(&sc, n, o, v), "VERIF-INFRA: %s", v.Infra)
					return
				}
				if v.Violation == "" {
					v.Violation = baseline(dryOut, o, v)
				}
				if v.Violation != "" {
					hx.Failf(t, describe(&sc, n, o, v), "%s", v.Violation)
					return
				}
				// Self-check of the scripted peer: nothing interferes, the
				// response is the RFC's — the handshake has to succeed.
				if pl.Kind == "never" && ep.p.Resp == "valid" && ep.p.Deliver < 0 && ep.p.Gate >= 0 && v.Outcome != "ok" {
					hx.Failf(t, describe(&sc, n, o, v), "undisturbed handshake with a valid response failed: %v", o.Err)
					return
				}
				account(&sc, n, o, v)
				hx.Class("enum/" + ep.name)
				total++
			}
		}
	}
	hx.Part("cancel before/after every handshake I/O index (forced) + unforced race at the last + pre/dial-return/after-return/never, 26 configurations x 11 peers + 3 crypto/tls configurations x 5 peers", total, true)
}

// TestEveryExpiryInstant enumerates the timer-driven ends: for stalling and
// slow peers, every kind of limit (context deadline, timed cancel, Timeout
// with each kind of context) at every instant of a grid that spans the dial
// phase, each blocked Write/Read and the time after completion.
func TestEveryExpiryInstant(t *testing.T) {
	peers := []enumPeer{
		{"silent", peerScript{Resp: "valid", Deliver: 0}},
		{"never-accepts-writes", peerScript{Resp: "valid", Deliver: -1, Gate: -1}},
		{"slow-everywhere", peerScript{Resp: "valid", Cuts: []int{300, 700}, Gaps: []int{10, 10, 10}, Deliver: -1, Gate: 10}},
		{"partial-then-silent", peerScript{Resp: "valid", Cuts: []int{300, 700}, Gaps: []int{10}, Deliver: 2}},
		{"badaccept-slow", peerScript{Resp: "badaccept", Cuts: []int{500}, Gaps: []int{20, 10}, Deliver: -1}},
		{"tls/silent", peerScript{TLS: true, Resp: "tlsgarbage", Deliver: 0}},
		{"tls/slow-then-3-bytes", peerScript{TLS: true, Resp: "tlsgarbage", Garbage: 3, Deliver: -1, Gaps: []int{20}, Gate: 10}},
	}
	type lim struct {
		name string
		set  func(sc *scenario, k int)
	}
	limits := []lim{
		{"ctx-deadline", func(sc *scenario, k int) { sc.Ctx, sc.Deadline = "deadline", 10*k+3 }},
		{"ctx-deadline+longer-timeout", func(sc *scenario, k int) { sc.Ctx, sc.Deadline, sc.Timeout = "deadline", 10*k+3, 10*k+15 }},
		{"ctx-deadline+shorter-timeout", func(sc *scenario, k int) { sc.Ctx, sc.Deadline, sc.Timeout = "deadline", 10*k+13, 10*k+5 }},
		{"ctx-deadline-cause", func(sc *scenario, k int) { sc.Ctx, sc.Deadline = "deadlinecause", 10*k+3 }},
		{"ctx-timeout-cause-child+longer-timeout", func(sc *scenario, k int) {
			sc.Ctx, sc.Deadline, sc.Timeout = "deadlinecause-child", 10*k+3, 10*k+15
		}},
		{"timed-cancel-cause", func(sc *scenario, k int) { sc.Ctx, sc.Plan = "cancelcause", plan{Kind: "at", At: 10*k + 7} }},
		{"timed-cancel-cause/child+later-timeout", func(sc *scenario, k int) {
			sc.Ctx, sc.Timeout, sc.Plan = "causechild", 10*k+15, plan{Kind: "at", At: 10*k + 7}
		}},
		{"timeout/cancelcause", func(sc *scenario, k int) { sc.Ctx, sc.Timeout = "cancelcause", 10*k+5 }},
		{"timeout-already-elapsed", func(sc *scenario, k int) {
			sc.Ctx = []string{"background", "todo", "cancel", "custom", "deadline", "cancelcause", "value", "deadlinecause"}[k]
			sc.Deadline, sc.TimeoutNs = 93, []int64{-1, -int64(time.Millisecond), -int64(time.Hour), -1 << 62}[k%4]
		}},
		{"timeout-1ns", func(sc *scenario, k int) {
			sc.Ctx = []string{"background", "todo", "cancel", "custom", "deadline", "cancelcause", "value", "deadlinecause"}[k]
			sc.Deadline, sc.TimeoutNs = 93, 1
		}},
		{"timed-cancel", func(sc *scenario, k int) { sc.Ctx, sc.Plan = "cancel", plan{Kind: "at", At: 10*k + 7} }},
		{"timed-cancel/custom+later-timeout", func(sc *scenario, k int) {
			sc.Ctx, sc.Timeout, sc.Plan = "custom", 10*k+15, plan{Kind: "at", At: 10*k + 7}
		}},
		{"timeout/background", func(sc *scenario, k int) { sc.Ctx, sc.Timeout = "background", 10*k+5 }},
		{"timeout/todo", func(sc *scenario, k int) { sc.Ctx, sc.Timeout = "todo", 10*k+5 }},
		{"timeout/cancel", func(sc *scenario, k int) { sc.Ctx, sc.Timeout = "cancel", 10*k+5 }},
		{"timeout/value", func(sc *scenario, k int) { sc.Ctx, sc.Timeout = "value", 10*k+5 }},
		{"timeout/custom", func(sc *scenario, k int) { sc.Ctx, sc.Timeout = "custom", 10*k+5 }},
		{"timeout/later-timed-cancel", func(sc *scenario, k int) {
			sc.Ctx, sc.Timeout, sc.Plan = "cancel", 10*k+5, plan{Kind: "at", At: 10*k + 17}
		}},
	}
	var total int64
	idx := 0
	for _, ep := range peers {
		for _, dialDelay := range []int{0, 20} {
			for wi, wbuf := range []int{0, 64, 0, 0, 0, 0, 0} {
				idx++
				if !hx.Mine(idx) {
					continue
				}
				base := scenario{DialDelay: dialDelay, WBuf: wbuf, Peer: ep.p}
				base.Peer.SlowDL = wi == 2
				if idx%2 == 0 {
					base.Entry = "package"
				}
				switch {
				case ep.p.TLS:
					base.Wrap, base.TLSNilCfg = "tls-default", wi%2 == 1
				case wi == 3:
					base.Wrap = "both"
				}
				switch wi {
				case 4:
					base.Entry, base.Debug = "debug", "both"
				case 6:
					base.Peer.DLFault, base.Peer.CloseErr = "err-applied", true
				case 5:
					base.DialIgnoresCtx = true
					base.Peer.TimeoutErr = "operror"
				}
				n, dryOut, _ := dryRun(t, &base)
				for _, l := range limits {
					for k := 0; k <= 7; k++ {
						sc := base
						sc.Plan = plan{Kind: "never"}
						l.set(&sc, k)
						o := runCase(t, &sc)
						v := judge(&sc, o)
						if v.Infra != "" {
							hx.Failf(t, describe(&sc, n, o, v), "VERIF-INFRA: %s", v.Infra)
							return
						}
						if v.Violation == "" {
							v.Violation = baseline(dryOut, o, v)
						}
						if v.Violation != "" {
							hx.Failf(t, describe(&sc, n, o, v), "%s", v.Violation)
							return
						}
						account(&sc, n, o, v)
						hx.Class("expiry/" + l.name)
						total++
					}
				}
			}
		}
	}
	hx.Part("18 kinds of limit x 8 instants x (5 stalling/slow peers + 2 peers stalling inside the crypto/tls handshake) x NetDial delay {0,20ms} x {default write buffer, 64-byte write buffer, slow SetDeadline, TLSClient+WrapConn wrappers, wsutil.DebugDialer, NetDial ignoring its context + *net.OpError timeouts, failing SetDeadline (applied) + failing Close}", total, true)
}

// TestEveryURLKind enumerates the URL dimension: every scheme (dialable and
// refused) x entry point x conn chain x context kind x {no cancellation,
// cancelled before Dial, limits that would fire later}. Whatever Dial does
// with the URL, no conn handed out by NetDial may stay open behind an error.
func TestEveryURLKind(t *testing.T) {
	var total int64
	idx := 0
	for _, scheme := range []string{"", "WS", "http", "https", "wws", "path", "bad"} {
		for _, entry := range []string{"", "package", "debug"} {
			for _, wrap := range []string{"", "tlsclient", "wrapconn", "both", "tls-default"} {
				idx++
				if !hx.Mine(idx) {
					continue
				}
				for _, ctx := range []string{"background", "cancel", "custom", "deadline", "cancelcause"} {
					for _, pk := range []string{"never", "pre", "after-return"} {
						for _, timeout := range []int{0, 55} {
							sc := scenario{Scheme: scheme, Entry: entry, Debug: "both", Wrap: wrap, Ctx: ctx, Deadline: 93, Timeout: timeout, DialDelay: 10,
								Peer: peerScript{Resp: "valid", Cuts: []int{500}, Deliver: -1}, Plan: plan{Kind: "never"}}
							if wrap == "tls-default" {
								sc.Peer = tlsPeers[2].p
							}
							if sc.cancellable() {
								sc.Plan.Kind = pk
							} else if pk != "never" {
								continue
							}
							o := runCase(t, &sc)
							v := judge(&sc, o)
							if v.Infra != "" {
								hx.Failf(t, describe(&sc, 0, o, v), "VERIF-INFRA: %s", v.Infra)
								return
							}
							if v.Violation != "" {
								hx.Failf(t, describe(&sc, 0, o, v), "%s", v.Violation)
								return
							}
							if sc.refused() && o.Err == nil {
								hx.Failf(t, describe(&sc, 0, o, v), "Dial returned a nil error for a URL that is not a ws/wss URL")
								return
							}
							account(&sc, o.AtReturn.IOs, o, v)
							total++
						}
					}
				}
			}
		}
	}
	hx.Part("7 URL kinds (ws/wss, upper-case, http, https, wws, path-only, unparseable) x 3 entry points x 5 conn chains x 5 context kinds x {never, cancelled before Dial, cancelled after return} x Timeout {0, 55ms}", total, true)
}

// ---------------------------------------------------------------------------
// known findings

// TestKnownFindings probes the defect of the originally pinned tree that
// belongs to C20 (repaired in /repo, so it must not show).
func TestKnownFindings(t *testing.T) {
	const sig = "C20/timeout-ignored-with-nonbackground-context"
	sc := &scenario{Ctx: "cancel", Timeout: 55, Peer: peerScript{Resp: "valid", Deliver: 0}, Plan: plan{Kind: "never"}}
	o := runCase(t, sc)
	v := judge(sc, o)
	if v.Infra != "" {
		t.Fatalf("VERIF-INFRA: %s", v.Infra)
	}
	present := !o.Returned || o.Rescued || o.TR > ms(sc.Timeout)
	what := fmt.Sprintf("Dialer{Timeout: 55ms}.Dial with a context.WithCancel context and a peer that never answers should return at 55ms of virtual time; it returned at %v (watchdog at %v fired: %v)", o.TR, watchdogAfter, o.Rescued)
	hx.Probe(t, sig, what, present, describe(sc, 0, o, v))
	if !present && v.Violation != "" {
		hx.Failf(t, describe(sc, 0, o, v), "%s", v.Violation)
	}
	hx.Eval()
	_ = time.Second
}
