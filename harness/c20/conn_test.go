//go:build go1.25

package c20

import (
	"bytes"
	"crypto/sha1"
	"encoding/base64"
	"errors"
	"fmt"
	"io"
	"net"
	"os"
	"strings"
	"sync"
	"time"
)

// ---------------------------------------------------------------------------
// peer script

// peerScript describes what the remote end does once it has seen the whole
// upgrade request. All times are virtual milliseconds and multiples of 10, so
// they never coincide with a context end or a dial timeout (see scenario).
type peerScript struct {
	Resp       string `json:"resp"`               // valid | status400 | badaccept | noupgrade | garbage
	Cuts       []int  `json:"cuts,omitempty"`     // permille positions at which the response is split into chunks
	Gaps       []int  `json:"gaps,omitempty"`     // delay before chunk j (relative to the previous delivery / the request); missing = 0
	Deliver    int    `json:"deliver"`            // number of chunks that are delivered; <0 = all, 0 = silent peer
	EOF        bool   `json:"eof,omitempty"`      // the peer closes its side after the delivered chunks
	Tail       int    `json:"tail,omitempty"`     // bytes of frame data following the response in its last chunk
	Gate       int    `json:"gate,omitempty"`     // the peer starts accepting writes at this time after connect; <0 = never
	TLS        bool   `json:"tls_peer,omitempty"` // the client speaks TLS: the peer reacts to the first bytes written (the ClientHello) with Garbage bytes that are no TLS record
	Garbage    int    `json:"garbage,omitempty"`
	DLFault    string `json:"set_deadline_fault,omitempty"` // every Set*Deadline call returns an error: err-applied (the deadline is set anyway) | err-ignored (it is not: such a conn does not honour deadlines)
	CloseErr   bool   `json:"close_fails,omitempty"`        // Close returns an error (the conn counts as closed anyway)
	FaultTop   bool   `json:"fault_at_top_layer,omitempty"` // the faults are those of the outermost TLSClient/WrapConn wrapper, if there is one, not of the raw conn
	TimeoutErr string `json:"timeout_err,omitempty"`        // shape of the conn's deadline error: "" | nottemp | operror
	SlowDL     bool   `json:"slow_set_deadline,omitempty"`  // every Set*Deadline call takes slowDL of virtual time before it takes effect
}

// slowDL is the latency of a slow Set*Deadline call. It is far below the 1 ms
// grid of the scenario's instants; the oracle allows dlSlack for their sum.
const (
	slowDL  = time.Microsecond
	dlSlack = 100 * time.Microsecond
)

const wsGUID = "258EAFA5-E914-47DA-95CA-C5AB0DC85B11"

func acceptFor(key string) string {
	h := sha1.Sum([]byte(key + wsGUID))
	return base64.StdEncoding.EncodeToString(h[:])
}

// requestKey extracts the Sec-WebSocket-Key value of the request.
func requestKey(req []byte) string {
	for _, line := range strings.Split(string(req), "\r\n") {
		if i := strings.IndexByte(line, ':'); i > 0 && strings.EqualFold(line[:i], "Sec-WebSocket-Key") {
			return strings.TrimSpace(line[i+1:])
		}
	}
	return ""
}

// response renders the peer's answer to the request it saw.
func (s *peerScript) response(req []byte) []byte {
	key := requestKey(req)
	var b bytes.Buffer
	switch s.Resp {
	case "tlsgarbage":
		for i := 0; i < s.Garbage; i++ {
			b.WriteByte("GARBAGE, NOT A TLS RECORD. "[i%27])
		}
		return b.Bytes()
	case "valid":
		b.WriteString("HTTP/1.1 101 Switching Protocols\r\nUpgrade: websocket\r\nConnection: Upgrade\r\nSec-WebSocket-Accept: " + acceptFor(key) + "\r\nServer: scripted-peer\r\n\r\n")
	case "status400":
		b.WriteString("HTTP/1.1 400 Bad Request\r\nContent-Length: 0\r\nServer: scripted-peer\r\n\r\n")
	case "badaccept":
		b.WriteString("HTTP/1.1 101 Switching Protocols\r\nUpgrade: websocket\r\nConnection: Upgrade\r\nSec-WebSocket-Accept: " + acceptFor(key+"x") + "\r\nServer: scripted-peer\r\n\r\n")
	case "noupgrade":
		b.WriteString("HTTP/1.1 101 Switching Protocols\r\nConnection: Upgrade\r\nSec-WebSocket-Accept: " + acceptFor(key) + "\r\nServer: scripted-peer\r\n\r\n")
	case "garbage":
		b.WriteString("SSH-2.0-scripted-peer\r\n\r\n")
	default:
		panic("c20: unknown response kind " + s.Resp)
	}
	for i := 0; i < s.Tail; i++ {
		b.WriteByte(byte(0x81 + i)) // some frame bytes right behind the handshake
	}
	return b.Bytes()
}

// split cuts resp at the permille positions of the script.
func (s *peerScript) split(resp []byte) [][]byte {
	offs := []int{}
	last := 0
	for _, c := range s.Cuts {
		o := len(resp) * c / 1000
		if o > last && o < len(resp) {
			offs = append(offs, o)
			last = o
		}
	}
	var out [][]byte
	prev := 0
	for _, o := range offs {
		out = append(out, resp[prev:o])
		prev = o
	}
	return append(out, resp[prev:])
}

func (s *peerScript) gap(j int) time.Duration {
	if j < len(s.Gaps) {
		return ms(s.Gaps[j])
	}
	return 0
}

func ms(n int) time.Duration { return time.Duration(n) * time.Millisecond }

// ---------------------------------------------------------------------------
// errors of the fake conn

type timeoutError struct{}

func (timeoutError) Error() string   { return "i/o timeout (scripted conn)" }
func (timeoutError) Timeout() bool   { return true }
func (timeoutError) Temporary() bool { return true }
func (timeoutError) Is(target error) bool {
	return target == os.ErrDeadlineExceeded
}

var _ net.Error = timeoutError{}

var (
	errDLFault    = errors.New("scripted conn: set deadline: operation not supported")
	errCloseFault = errors.New("scripted conn: close: input/output error")
)

// faultsAtRaw says whether the drawn faults belong to the raw conn.
func (c *fakeConn) faultsAtRawLocked() bool { return !c.script.FaultTop || len(c.layers) == 0 }

// timeoutNotTemp is a timeout that does not call itself temporary (as
// context-style deadline errors of some transports do).
type timeoutNotTemp struct{ timeoutError }

func (timeoutNotTemp) Temporary() bool { return false }

// timeoutErr is what an I/O call on an expired deadline returns: the plain
// value (Timeout and Temporary, like os.ErrDeadlineExceeded), a timeout that
// is not temporary, or the standard library's shape, a *net.OpError around it.
func (c *fakeConn) timeoutErr(op string) error {
	switch c.script.TimeoutErr {
	case "nottemp":
		return timeoutNotTemp{}
	case "operror":
		return &net.OpError{Op: op, Net: "scripted", Addr: fakeAddr("peer"), Err: timeoutError{}}
	}
	return timeoutError{}
}

// fatalError ends a runaway: neither a timeout nor temporary.
type fatalError struct{ n int }

func (e fatalError) Error() string {
	return fmt.Sprintf("scripted conn: broken after %d I/O calls on an expired or closed conn", e.n)
}

// runawayLimit bounds the I/O calls of one Dial that fail because the
// deadline has already passed or the conn is closed. A Dial that keeps
// retrying never blocks, so virtual time could never advance; beyond the limit
// the conn records the runaway and fails every call fatally, and if even that
// does not stop the caller it panics (reported as a violation).
const runawayLimit = 1000

type fakeAddr string

func (a fakeAddr) Network() string { return "scripted" }
func (a fakeAddr) String() string  { return string(a) }

// ---------------------------------------------------------------------------
// event log

type event struct {
	Kind string        // Read Write SetDeadline SetReadDeadline SetWriteDeadline Close LocalAddr RemoteAddr, or a harness marker "mark:*"
	IO   int           // index among Read/Write calls, -1 for the others
	At   time.Duration // virtual time at entry
	Arg  string
	N    int
	Err  string
	Done bool
}

func (e event) String() string {
	s := fmt.Sprintf("%s@%v", e.Kind, e.At)
	if e.IO >= 0 {
		s += fmt.Sprintf("#%d", e.IO)
	}
	if e.Arg != "" {
		s += "(" + e.Arg + ")"
	}
	switch {
	case strings.HasPrefix(e.Kind, "mark:"):
	case !e.Done:
		s += "=blocked"
	case e.Err != "":
		s += "=" + e.Err
	case e.IO >= 0:
		s += fmt.Sprintf("=%d", e.N)
	}
	return s
}

func renderLog(log []event) []string {
	out := make([]string, 0, len(log))
	for i, e := range log {
		if len(log) > 60 && i >= 40 && i < len(log)-15 {
			if i == 40 {
				out = append(out, fmt.Sprintf("... %d more calls ...", len(log)-55))
			}
			continue
		}
		out = append(out, e.String())
	}
	return out
}

// ---------------------------------------------------------------------------
// the scripted conn

// fakeConn is a net.Conn that honours deadlines in the bubble's virtual time,
// logs every call and lets the harness act at chosen I/O indices. It owns no
// goroutine: a blocked Read/Write waits in the caller's goroutine on a wake-up
// channel and a timer for its deadline; delayed peer actions are
// time.AfterFunc timers that are stopped on Close and at the end of the case.
type fakeConn struct {
	t0     time.Time
	script *peerScript
	hook   func(io int, before bool) // called in the I/O caller's goroutine, without c.mu

	mu       sync.Mutex
	log      []event
	nio      int
	rd, wd   time.Time
	wake     chan struct{} // closed and replaced at every state change
	inbox    [][]byte
	gateOpen bool
	closed   bool // Close was called
	down     bool // the harness ended the case
	eof      bool // the peer went away
	req      []byte
	reqDone  bool
	chunks   [][]byte
	timers   []*time.Timer
	layers   []*passConn
	deadIO   int // I/O calls that failed on an expired deadline or a closed conn
	runaway  int // deadIO when the runaway was recorded, 0 = none
}

// deadLocked accounts one I/O call on an expired or closed conn and returns
// the error to report. c.mu is held.
func (c *fakeConn) deadLocked(err error) error {
	c.deadIO++
	switch {
	case c.deadIO > 3*runawayLimit:
		panic(fmt.Sprintf("Dial keeps retrying I/O on a conn that reports a fatal error (%d calls)", c.deadIO))
	case c.deadIO > runawayLimit:
		if c.runaway == 0 {
			c.runaway = c.deadIO
			i := c.appendLocked("mark:runaway", -1, fmt.Sprintf("%d calls", c.deadIO))
			c.log[i].Done = true
		}
		return fatalError{c.deadIO}
	}
	return err
}

func newFakeConn(t0 time.Time, s *peerScript) *fakeConn {
	return &fakeConn{t0: t0, script: s, wake: make(chan struct{})}
}

func (c *fakeConn) broadcastLocked() {
	close(c.wake)
	c.wake = make(chan struct{})
}

func (c *fakeConn) appendLocked(kind string, io int, arg string) int {
	c.log = append(c.log, event{Kind: kind, IO: io, At: time.Since(c.t0), Arg: arg})
	return len(c.log) - 1
}

// mark puts a harness marker into the log.
func (c *fakeConn) mark(what string) {
	c.mu.Lock()
	i := c.appendLocked("mark:"+what, -1, "")
	c.log[i].Done = true
	c.mu.Unlock()
}

// established is called when NetDial hands the conn out.
func (c *fakeConn) established() {
	c.mu.Lock()
	defer c.mu.Unlock()
	switch g := c.script.Gate; {
	case g == 0:
		c.gateOpen = true
	case g > 0:
		c.timers = append(c.timers, time.AfterFunc(ms(g), func() {
			c.mu.Lock()
			defer c.mu.Unlock()
			c.gateOpen = true
			c.broadcastLocked()
		}))
	}
}

func expired(d time.Time) bool { return !d.IsZero() && !time.Now().Before(d) }

func (c *fakeConn) enterIO(kind string, n int) (seq, io int) {
	c.mu.Lock()
	defer c.mu.Unlock()
	io = c.nio
	c.nio++
	return c.appendLocked(kind, io, fmt.Sprintf("len=%d", n)), io
}

func (c *fakeConn) leave(seq, n int, err error) {
	c.mu.Lock()
	defer c.mu.Unlock()
	c.log[seq].Done = true
	c.log[seq].N = n
	if err != nil {
		c.log[seq].Err = err.Error()
	}
}

// block waits for a state change or for the deadline. c.mu is held on entry
// and released on return.
func (c *fakeConn) blockUnlock(deadline time.Time) {
	wake := c.wake
	var tm *time.Timer
	var tc <-chan time.Time
	if !deadline.IsZero() {
		tm = time.NewTimer(time.Until(deadline))
		tc = tm.C
	}
	c.mu.Unlock()
	select {
	case <-wake:
	case <-tc:
	}
	if tm != nil {
		tm.Stop()
	}
}

func (c *fakeConn) Read(p []byte) (int, error) {
	seq, io := c.enterIO("Read", len(p))
	c.hook(io, true)
	n, err := c.read(p)
	if err == nil {
		c.hook(io, false)
	}
	c.leave(seq, n, err)
	return n, err
}

func (c *fakeConn) read(p []byte) (int, error) {
	for {
		c.mu.Lock()
		switch {
		case c.closed || c.down:
			err := c.deadLocked(net.ErrClosed)
			c.mu.Unlock()
			return 0, err
		case expired(c.rd):
			err := c.deadLocked(c.timeoutErr("read"))
			c.mu.Unlock()
			return 0, err
		case len(p) == 0:
			c.mu.Unlock()
			return 0, nil
		case len(c.inbox) > 0:
			n := copy(p, c.inbox[0])
			if n == len(c.inbox[0]) {
				c.inbox = c.inbox[1:]
			} else {
				c.inbox[0] = c.inbox[0][n:]
			}
			c.mu.Unlock()
			return n, nil
		case c.eof:
			c.mu.Unlock()
			return 0, io.EOF
		}
		c.blockUnlock(c.rd)
	}
}

func (c *fakeConn) Write(p []byte) (int, error) {
	seq, io := c.enterIO("Write", len(p))
	c.hook(io, true)
	n, err := c.write(p)
	if err == nil {
		c.hook(io, false)
	}
	c.leave(seq, n, err)
	return n, err
}

func (c *fakeConn) write(p []byte) (int, error) {
	for {
		c.mu.Lock()
		switch {
		case c.closed || c.down:
			err := c.deadLocked(net.ErrClosed)
			c.mu.Unlock()
			return 0, err
		case expired(c.wd):
			err := c.deadLocked(c.timeoutErr("write"))
			c.mu.Unlock()
			return 0, err
		case c.eof:
			c.mu.Unlock()
			return 0, io.ErrClosedPipe
		case c.gateOpen:
			c.req = append(c.req, p...)
			if !c.reqDone && (c.script.TLS || bytes.Contains(c.req, []byte("\r\n\r\n"))) {
				c.reqDone = true
				c.startPeerLocked()
			}
			c.mu.Unlock()
			return len(p), nil
		}
		c.blockUnlock(c.wd)
	}
}

func (c *fakeConn) startPeerLocked() {
	s := c.script
	if s.Deliver != 0 {
		c.chunks = s.split(s.response(c.req))
		if s.Deliver > 0 && s.Deliver < len(c.chunks) {
			c.chunks = c.chunks[:s.Deliver]
		}
	}
	c.deliverFromLocked(0)
}

func (c *fakeConn) deliverFromLocked(j int) {
	for ; j < len(c.chunks); j++ {
		if g := c.script.gap(j); g > 0 {
			jj := j
			c.timers = append(c.timers, time.AfterFunc(g, func() {
				c.mu.Lock()
				defer c.mu.Unlock()
				if c.closed || c.down {
					return
				}
				c.inbox = append(c.inbox, c.chunks[jj])
				c.broadcastLocked()
				c.deliverFromLocked(jj + 1)
			}))
			return
		}
		c.inbox = append(c.inbox, c.chunks[j])
		c.broadcastLocked()
	}
	if c.script.EOF {
		c.eof = true
		c.broadcastLocked()
	}
}

func dlArg(t time.Time) string {
	switch d := time.Until(t); {
	case t.IsZero():
		return "zero"
	case d <= 0:
		return "past"
	default:
		return "+" + d.String()
	}
}

func (c *fakeConn) setDL(kind string, t time.Time, r, w bool) error {
	if c.script.SlowDL {
		// The call is logged when it takes effect: a caller that does not wait
		// for it (and only such a caller) is seen touching the conn late.
		time.Sleep(slowDL)
	}
	c.mu.Lock()
	defer c.mu.Unlock()
	i := c.appendLocked(kind, -1, dlArg(t))
	c.log[i].Done = true
	if c.closed || c.down {
		c.log[i].Err = net.ErrClosed.Error()
		return net.ErrClosed
	}
	fault := c.script.DLFault != "" && c.faultsAtRawLocked()
	if fault {
		c.log[i].Err = errDLFault.Error()
	}
	if !fault || c.script.DLFault == "err-applied" {
		if r {
			c.rd = t
		}
		if w {
			c.wd = t
		}
		c.broadcastLocked()
	}
	if fault {
		return errDLFault
	}
	return nil
}

func (c *fakeConn) SetDeadline(t time.Time) error { return c.setDL("SetDeadline", t, true, true) }
func (c *fakeConn) SetReadDeadline(t time.Time) error {
	return c.setDL("SetReadDeadline", t, true, false)
}
func (c *fakeConn) SetWriteDeadline(t time.Time) error {
	return c.setDL("SetWriteDeadline", t, false, true)
}

func (c *fakeConn) stopTimersLocked() {
	for _, t := range c.timers {
		t.Stop()
	}
	c.timers = nil
}

func (c *fakeConn) Close() error {
	c.mu.Lock()
	defer c.mu.Unlock()
	i := c.appendLocked("Close", -1, "")
	c.log[i].Done = true
	if c.closed || c.down {
		c.log[i].Err = net.ErrClosed.Error()
		return net.ErrClosed
	}
	c.closed = true
	c.stopTimersLocked()
	c.broadcastLocked()
	if c.script.CloseErr && c.faultsAtRawLocked() {
		c.log[i].Err = errCloseFault.Error()
		return errCloseFault
	}
	return nil
}

func (c *fakeConn) addr(kind string) net.Addr {
	c.mu.Lock()
	i := c.appendLocked(kind, -1, "")
	c.log[i].Done = true
	c.mu.Unlock()
	return fakeAddr("scripted:" + kind)
}

func (c *fakeConn) LocalAddr() net.Addr  { return c.addr("LocalAddr") }
func (c *fakeConn) RemoteAddr() net.Addr { return c.addr("RemoteAddr") }

// peerGone is the watchdog's rescue: pending and later I/O fails.
func (c *fakeConn) peerGone() {
	c.mu.Lock()
	c.eof = true
	c.broadcastLocked()
	c.mu.Unlock()
}

// shutdown ends the case: timers are stopped, anything still blocked wakes up.
func (c *fakeConn) shutdown() {
	c.mu.Lock()
	c.down = true
	c.stopTimersLocked()
	c.broadcastLocked()
	c.mu.Unlock()
}

// state is a snapshot used by the oracle.
// passConn is a pass-through wrapper as Dialer.TLSClient / Dialer.WrapConn
// may return one: it forwards every call and records it, under its own name,
// in the raw conn's log; it keeps the deadlines and the closed flag it was
// given, so the oracle can be applied to every layer of the chain.
type passConn struct {
	name   string
	inner  net.Conn
	raw    *fakeConn
	rd, wd time.Time // guarded by raw.mu
	closed bool
}

func (p *passConn) note(kind, arg string, f func()) {
	p.raw.mu.Lock()
	i := p.raw.appendLocked(p.name+"."+kind, -1, arg)
	p.raw.log[i].Done = true
	if f != nil {
		f()
	}
	p.raw.mu.Unlock()
}

func (p *passConn) Read(b []byte) (int, error) {
	p.note("Read", "", nil)
	return p.inner.Read(b)
}

func (p *passConn) Write(b []byte) (int, error) {
	p.note("Write", "", nil)
	return p.inner.Write(b)
}

// faulty says whether the drawn faults are this layer's.
func (p *passConn) faulty() bool {
	p.raw.mu.Lock()
	defer p.raw.mu.Unlock()
	return p.raw.script.FaultTop && p.raw.layers[len(p.raw.layers)-1] == p
}

func (p *passConn) Close() error {
	p.note("Close", "", func() { p.closed = true })
	err := p.inner.Close()
	if p.raw.script.CloseErr && p.faulty() {
		return errCloseFault
	}
	return err
}

func (p *passConn) setDL(kind string, t time.Time, fwd func(time.Time) error, set func()) error {
	switch {
	case p.raw.script.DLFault == "" || !p.faulty():
		err := fwd(t)
		p.note(kind, dlArg(t), set)
		return err
	case p.raw.script.DLFault == "err-applied":
		fwd(t)
		p.note(kind, dlArg(t)+" fails", set)
	default:
		p.note(kind, dlArg(t)+" fails, not applied", nil)
	}
	return errDLFault
}

func (p *passConn) SetDeadline(t time.Time) error {
	return p.setDL("SetDeadline", t, p.inner.SetDeadline, func() { p.rd, p.wd = t, t })
}

func (p *passConn) SetReadDeadline(t time.Time) error {
	return p.setDL("SetReadDeadline", t, p.inner.SetReadDeadline, func() { p.rd = t })
}

func (p *passConn) SetWriteDeadline(t time.Time) error {
	return p.setDL("SetWriteDeadline", t, p.inner.SetWriteDeadline, func() { p.wd = t })
}

func (p *passConn) LocalAddr() net.Addr  { return p.inner.LocalAddr() }
func (p *passConn) RemoteAddr() net.Addr { return p.inner.RemoteAddr() }

// wrap adds a recording pass-through layer on top of inner.
func (c *fakeConn) wrap(name string, inner net.Conn) net.Conn {
	p := &passConn{name: name, inner: inner, raw: c}
	c.mu.Lock()
	c.layers = append(c.layers, p)
	c.mu.Unlock()
	return p
}

type connState struct {
	LayerOpen string // a wrapper layer that has not seen Close
	LayerShut string // a wrapper layer that has seen Close
	LayerDL   string // a wrapper layer left with a deadline
	LogLen    int
	Closed    bool
	RD, WD    time.Time
	IOs       int
	Runaway   int
}

func (c *fakeConn) state() connState {
	c.mu.Lock()
	defer c.mu.Unlock()
	st := connState{LogLen: len(c.log), Closed: c.closed, RD: c.rd, WD: c.wd, IOs: c.nio, Runaway: c.runaway}
	for _, p := range c.layers {
		if p.closed {
			st.LayerShut = p.name
		} else {
			st.LayerOpen = p.name
		}
		if !p.rd.IsZero() || !p.wd.IsZero() {
			st.LayerDL = fmt.Sprintf("%s (read %s, write %s)", p.name, dlArg(p.rd), dlArg(p.wd))
		}
	}
	return st
}

func (c *fakeConn) copyLog() []event {
	c.mu.Lock()
	defer c.mu.Unlock()
	return append([]event(nil), c.log...)
}
