//go:build go1.25

package c20

import (
	"bufio"
	"context"
	"crypto/tls"
	"errors"
	"fmt"
	"net"
	"runtime"
	"runtime/debug"
	"strings"
	"sync"
	"testing"
	"testing/synctest"
	"time"

	"github.com/gobwas/ws"
	"github.com/gobwas/ws/wsutil"
)

// ---------------------------------------------------------------------------
// scenario

// All times are virtual milliseconds from the moment Dial is called. Residues
// mod 10 keep the four kinds of instants apart, so no two timers of different
// kinds ever fire at the same virtual instant:
//
//	peer / NetDial events  ≡ 0     context deadline ≡ 3
//	dial timeout           ≡ 5     timed cancel     ≡ 7
type scenario struct {
	Ctx            string     `json:"ctx"` // background | todo | cancel | value | custom | deadline
	Deadline       int        `json:"ctx_deadline_ms,omitempty"`
	Timeout        int        `json:"timeout_ms,omitempty"` // Dialer.Timeout, 0 = none
	TimeoutNs      int64      `json:"timeout_ns,omitempty"` // when non-zero it is Dialer.Timeout instead: a budget that has run out (negative) or 1 ns
	DialDelay      int        `json:"netdial_delay_ms,omitempty"`
	DialFail       bool       `json:"netdial_fails,omitempty"`       // NetDial reports "connection refused" after its delay
	Scheme         string     `json:"scheme,omitempty"`              // "" = ws/wss as the conn chain needs | WS (upper case) | http | https | wws | path (no scheme) | bad (unparseable)
	Debug          string     `json:"debug_callbacks,omitempty"`     // entry debug: which of OnRequest/OnResponse are set: both | req | resp | none
	DialIgnoresCtx bool       `json:"netdial_ignores_ctx,omitempty"` // NetDial takes its full delay and hands out the conn (or its error) even when its context is done by then
	Entry          string     `json:"entry,omitempty"`               // "" = Dialer.Dial on a value | package = the dialer is assigned to ws.DefaultDialer and ws.Dial is called | debug = wsutil.DebugDialer{Dialer: d}.Dial
	Wrap           string     `json:"wrap,omitempty"`                // "" | tlsclient (wss + pass-through TLSClient) | wrapconn | both | tls-default (wss, crypto/tls client)
	TLSNilCfg      bool       `json:"tls_nil_config,omitempty"`      // tls-default: Dialer.TLSConfig nil instead of {InsecureSkipVerify: true}
	RBuf           int        `json:"rbuf,omitempty"`
	WBuf           int        `json:"wbuf,omitempty"`
	Peer           peerScript `json:"peer"`
	Plan           plan       `json:"plan"`
}

// plan says when the harness ends the context by hand.
type plan struct {
	Kind   string `json:"kind"`             // never | pre | at | dial-return | io | after-return
	At     int    `json:"at_ms,omitempty"`  // kind at
	IO     int    `json:"io,omitempty"`     // kind io: index among the conn's Read/Write calls
	Before bool   `json:"before,omitempty"` // kind io: before the operation looks at the conn / after it took effect
	Forced bool   `json:"forced,omitempty"` // kind io: synctest.Wait() after cancel, so the watcher has acted before the I/O continues
}

func (s *scenario) cancellable() bool { return s.Ctx != "background" && s.Ctx != "todo" }

func (p plan) label() string {
	if p.Kind != "io" {
		return p.Kind
	}
	l := "io/after"
	if p.Before {
		l = "io/before"
	}
	if !p.Forced {
		l += "/unforced"
	}
	return l
}

type ctxKey struct{}

// customCtx hides the standard implementation from package context, so a
// context derived from it needs context's own propagation goroutine.
type customCtx struct{ inner context.Context }

func (c customCtx) Deadline() (time.Time, bool) { return c.inner.Deadline() }
func (c customCtx) Done() <-chan struct{}       { return c.inner.Done() }
func (c customCtx) Err() error                  { return c.inner.Err() }
func (c customCtx) Value(interface{}) interface{} {
	return nil
}

// errCause is the cause the harness gives to the *Cause context kinds. Dial
// has to report ctx.Err(), never this value.
var errCause = errors.New("harness: application-level cancellation cause")

// timeout is the value given to Dialer.Timeout.
func (s *scenario) timeout() time.Duration {
	if s.TimeoutNs != 0 {
		return time.Duration(s.TimeoutNs)
	}
	return ms(s.Timeout)
}

// refused reports whether the URL is one Dial has to refuse before any
// handshake I/O: not a ws/wss URL.
func (s *scenario) refused() bool { return s.Scheme != "" && s.Scheme != "WS" }

func (s *scenario) hasDeadline() bool { return strings.HasPrefix(s.Ctx, "deadline") }

var errRefused = errors.New("scripted NetDial: connection refused")

// ---------------------------------------------------------------------------
// outcome

type outcome struct {
	Returned       bool
	Err            error
	ConnNil        bool
	NetDialDone    time.Duration // virtual time at which the NetDial stub returned
	DoneAtObtain   bool          // NetDial handed out the conn although its context was already done
	DebugReq       int
	DebugResp      int
	NetDials       int  // calls of the Dialer.NetDial stub
	NotTop         bool // success, but the returned conn is not the outermost conn of the chain
	BrNonNil       bool
	TR             time.Duration // virtual time at which Dial returned
	CtxErrAtReturn error
	CancelAt       time.Duration // virtual time of the harness's cancel call, -1 = not happened
	CancelSeq      int           // log length at that moment
	ConnObtained   bool
	ObtainedAt     time.Duration
	Rescued        bool
	AtReturn       connState
	Log            []event // log after the quiet hour
	LeakedLate     bool
	Leaked         int // goroutines of the bubble other than the harness's, after Dial returned and everything settled
	LeakDump       string
	Deadlock       string // synctest's verdict when the bubble could not drain / Dial never returned
	Panic          string
}

const (
	watchdogAfter = 10 * time.Hour
	quietPeriod   = time.Hour
)

// runCase executes one scenario in a fresh bubble. It never fails tt; the
// caller judges the outcome outside the bubble.
func runCase(tt *testing.T, sc *scenario) (out *outcome) {
	out = &outcome{CancelAt: -1, CancelSeq: -1}
	defer func() {
		// synctest reports goroutines that are blocked for good (Dial itself,
		// or something Dial started) by panicking in the caller of Test.
		if r := recover(); r != nil {
			out.Deadlock = fmt.Sprint(r)
		}
	}()
	synctest.Test(tt, func(*testing.T) {
		defer func() {
			if r := recover(); r != nil {
				out.Panic = fmt.Sprintf("%v\n%s", r, debug.Stack())
			}
		}()
		bubble(sc, out)
	})
	return out
}

func bubble(sc *scenario, out *outcome) {
	start := time.Now()
	pl := sc.Plan

	var ctx context.Context
	cancel := context.CancelFunc(func() {})
	switch sc.Ctx {
	case "background":
		ctx = context.Background()
	case "todo":
		ctx = context.TODO()
	case "cancel":
		ctx, cancel = context.WithCancel(context.Background())
	case "value":
		ctx, cancel = context.WithCancel(context.Background())
		ctx = context.WithValue(ctx, ctxKey{}, "c20")
	case "custom":
		ctx, cancel = context.WithCancel(context.Background())
		ctx = customCtx{ctx}
	case "deadline":
		ctx, cancel = context.WithDeadline(context.Background(), start.Add(ms(sc.Deadline)))
	case "cancelcause":
		// ended by the application with its own cause: ctx.Err() is still
		// context.Canceled, context.Cause(ctx) is errCause
		c, cc := context.WithCancelCause(context.Background())
		ctx, cancel = c, func() { cc(errCause) }
	case "causechild":
		parent, cc := context.WithCancelCause(context.Background())
		c, childCancel := context.WithCancel(parent)
		defer childCancel()
		ctx, cancel = c, func() { cc(errCause) }
	case "deadlinecause":
		parent, cc := context.WithCancelCause(context.Background())
		c, dc := context.WithDeadlineCause(parent, start.Add(ms(sc.Deadline)), errCause)
		defer dc()
		ctx, cancel = c, func() { cc(errCause) }
	case "deadlinecause-child":
		parent, pc := context.WithTimeoutCause(context.Background(), ms(sc.Deadline), errCause)
		defer pc()
		parent2, cc := context.WithCancelCause(parent)
		ctx, cancel = context.WithValue(parent2, ctxKey{}, "c20"), func() { cc(errCause) }
	default:
		panic("c20: unknown ctx kind " + sc.Ctx)
	}
	defer cancel()

	conn := newFakeConn(start, &sc.Peer)
	defer conn.shutdown()

	var mu sync.Mutex // CancelAt/Rescued are also written by timer goroutines
	doCancel := func() {
		mu.Lock()
		if out.CancelAt < 0 {
			out.CancelAt = time.Since(start)
			out.CancelSeq = conn.state().LogLen
			conn.mark("cancel")
		}
		mu.Unlock()
		cancel()
	}
	forceAtFirstIO := false
	conn.hook = func(io int, before bool) {
		switch pl.Kind {
		case "io":
			if io == pl.IO && before == pl.Before {
				doCancel()
				if pl.Forced {
					synctest.Wait()
				}
			}
		case "dial-return":
			if io == 0 && before {
				synctest.Wait()
			}
		}
		if forceAtFirstIO && io == 0 && before && pl.Kind != "dial-return" && !(pl.Kind == "io" && pl.IO == 0 && pl.Before) {
			// the conn was obtained with its context already done: let the
			// watcher act before the handshake I/O goes on (deterministic)
			synctest.Wait()
		}
	}

	d := ws.Dialer{
		Timeout:         sc.timeout(),
		ReadBufferSize:  sc.RBuf,
		WriteBufferSize: sc.WBuf,
		NetDial: func(dctx context.Context, network, addr string) (net.Conn, error) {
			out.NetDials++
			defer func() { out.NetDialDone = time.Since(start) }()
			if sc.DialIgnoresCtx {
				if sc.DialDelay > 0 {
					time.Sleep(ms(sc.DialDelay))
				}
				if sc.DialFail {
					return nil, errRefused
				}
				conn.established()
				out.ConnObtained = true
				out.ObtainedAt = time.Since(start)
				forceAtFirstIO = dctx.Err() != nil
				out.DoneAtObtain = forceAtFirstIO
				if pl.Kind == "dial-return" {
					doCancel()
				}
				return conn, nil
			}
			if sc.DialDelay > 0 {
				tm := time.NewTimer(ms(sc.DialDelay))
				select {
				case <-tm.C:
				case <-dctx.Done():
					tm.Stop()
					return nil, dctx.Err()
				}
			}
			if err := dctx.Err(); err != nil {
				return nil, err
			}
			if sc.DialFail {
				return nil, errRefused
			}
			conn.established()
			out.ConnObtained = true
			out.ObtainedAt = time.Since(start)
			if pl.Kind == "dial-return" {
				doCancel()
			}
			return conn, nil
		},
	}

	url := "ws://127.0.0.1:1/c20"
	var top net.Conn // the outermost conn of the chain handed to the handshake, when the harness built it
	switch sc.Wrap {
	case "tlsclient", "both", "tls-default":
		url = "wss://127.0.0.1:1/c20"
	}
	switch sc.Scheme {
	case "WS":
		url = strings.ToUpper(url[:strings.Index(url, ":")]) + url[strings.Index(url, ":"):]
	case "http", "https", "wws":
		url = sc.Scheme + "://127.0.0.1:1/c20"
	case "path":
		url = "/c20"
	case "bad":
		url = "ws://127.0.0.1:1/c20%zz"
	}
	if sc.Wrap == "tlsclient" || sc.Wrap == "both" {
		d.TLSClient = func(c net.Conn, hostname string) net.Conn {
			top = conn.wrap("tlsclient", c)
			return top
		}
	}
	if sc.Wrap == "wrapconn" || sc.Wrap == "both" {
		d.WrapConn = func(c net.Conn) net.Conn {
			top = conn.wrap("wrapconn", c)
			return top
		}
	}
	if sc.Wrap == "tls-default" && !sc.TLSNilCfg {
		d.TLSConfig = &tls.Config{InsecureSkipVerify: true}
	}

	var timers []*time.Timer
	defer func() {
		for _, t := range timers {
			t.Stop()
		}
	}()
	if pl.Kind == "at" {
		timers = append(timers, time.AfterFunc(ms(pl.At), doCancel))
	}
	watchdog := time.AfterFunc(watchdogAfter, func() {
		mu.Lock()
		out.Rescued = true
		mu.Unlock()
		cancel()
		conn.peerGone()
	})
	timers = append(timers, watchdog)
	if pl.Kind == "pre" {
		doCancel()
	}

	synctest.Wait()
	n0 := runtime.NumGoroutine()

	var (
		c   net.Conn
		br  *bufio.Reader
		err error
	)
	if sc.Entry == "package" {
		// plain memory inside the bubble; the package's tests run one at a time
		func() {
			saved := ws.DefaultDialer
			defer func() { ws.DefaultDialer = saved }()
			ws.DefaultDialer = d
			c, br, _, err = ws.Dial(ctx, url)
		}()
	} else if sc.Entry == "debug" {
		dd := wsutil.DebugDialer{Dialer: d}
		if sc.Debug == "both" || sc.Debug == "req" {
			dd.OnRequest = func(p []byte) { out.DebugReq++ }
		}
		if sc.Debug == "both" || sc.Debug == "resp" {
			dd.OnResponse = func(p []byte) { out.DebugResp++ }
		}
		c, br, _, err = dd.Dial(ctx, url)
	} else {
		c, br, _, err = d.Dial(ctx, url)
	}

	out.TR = time.Since(start)
	out.Returned = true
	out.Err = err
	out.ConnNil = c == nil
	out.NotTop = err == nil && c != nil && sc.Wrap != "tls-default" && ((top != nil && c != top) || (top == nil && c != net.Conn(conn)))
	out.BrNonNil = br != nil
	out.CtxErrAtReturn = ctx.Err()
	out.AtReturn = conn.state()
	watchdog.Stop()
	if pl.Kind == "after-return" {
		doCancel()
	}

	// Let everything Dial may have left behind act: settle, let an hour of
	// virtual time pass (context deadlines and timers fire), settle again.
	// NumGoroutine is only the cheap trigger; the verdict comes from the
	// goroutine dump, which names the bubble of every goroutine.
	synctest.Wait()
	if runtime.NumGoroutine() > n0 {
		out.Leaked, out.LeakDump = foreignGoroutines()
	}
	time.Sleep(quietPeriod)
	synctest.Wait()
	out.Log = conn.copyLog()
	if out.Leaked == 0 && runtime.NumGoroutine() > n0 {
		out.Leaked, out.LeakDump = foreignGoroutines()
		out.LeakedLate = true
	}
	if br != nil {
		ws.PutReader(br)
	}
}

// foreignGoroutines counts the goroutines of the current bubble that are not
// part of the harness (the bubble's root, its main goroutine and the caller).
func foreignGoroutines() (int, string) {
	buf := make([]byte, 1<<20)
	buf = buf[:runtime.Stack(buf, true)]
	blocks := strings.Split(string(buf), "\n\n")
	if len(blocks) == 0 {
		return 0, ""
	}
	head := strings.SplitN(blocks[0], "\n", 2)[0]
	i := strings.Index(head, "synctest bubble ")
	if i < 0 {
		return 0, ""
	}
	tag := strings.TrimSuffix(strings.TrimSpace(head[i:]), ":")
	var dump []string
	for _, b := range blocks[1:] {
		h := strings.SplitN(b, "\n", 2)[0]
		if !strings.Contains(h, tag) {
			continue
		}
		if strings.Contains(b, "internal/synctest.Run(") || strings.Contains(b, "testing/synctest.testingSynctestTest(") {
			continue
		}
		dump = append(dump, b)
	}
	return len(dump), strings.Join(dump, "\n\n")
}

// ---------------------------------------------------------------------------
// oracle

type verdict struct {
	Violation string
	Infra     string
	Outcome   string // ok | ctx-error | net-timeout | other-error | rescued | never-returned
	Open      string // set when the statement leaves the result of this case open
	Bound     time.Duration
	HasBound  bool
	BoundKind string // what the earliest limit was: ctx-deadline | timed-cancel | cancel | timeout
	MustCtx   bool
	NonTriv   bool
}

func maxZero(d time.Duration) time.Duration {
	if d < 0 {
		return 0
	}
	return d
}

func isNetTimeout(err error) bool {
	var ne net.Error
	return errors.As(err, &ne) && ne.Timeout()
}

func ioAfter(log []event, seq int) bool {
	for i := seq; i < len(log); i++ {
		if log[i].IO >= 0 {
			return true
		}
	}
	return false
}

// touches filters the harness's own markers out of a piece of the log.
func touches(log []event) (out []event) {
	for _, e := range log {
		if !strings.HasPrefix(e.Kind, "mark:") {
			out = append(out, e)
		}
	}
	return out
}

// judge decides one outcome against the statement of C20.
func judge(sc *scenario, o *outcome) (v verdict) {
	pl := sc.Plan
	if o.Panic != "" {
		v.Violation = "panic while dialling: " + o.Panic
		v.Outcome = "panic"
		return
	}

	// When did the caller's context end, and what is the earliest instant at
	// which Dial has to give up?
	limit := func(t time.Duration, kind string) {
		if !v.HasBound || t < v.Bound {
			v.Bound, v.HasBound, v.BoundKind = t, true, kind
		}
	}
	var ctxEnd time.Duration
	ctxEnds, ctxEndTimed := false, false
	note := func(t time.Duration, timed bool) {
		if !ctxEnds || t < ctxEnd {
			ctxEnd, ctxEnds, ctxEndTimed = t, true, timed
		}
	}
	if sc.hasDeadline() {
		note(ms(sc.Deadline), true)
		limit(ms(sc.Deadline), "ctx-deadline")
	}
	if sc.cancellable() {
		switch pl.Kind {
		case "pre":
			note(0, false)
			limit(0, "cancel")
		case "at":
			note(ms(pl.At), true)
			limit(ms(pl.At), "timed-cancel")
		case "io", "dial-return":
			// (an I/O index that is only reached in the watchdog's rescue is
			// no cancellation of this case)
			if o.CancelAt >= 0 && o.CancelAt < watchdogAfter {
				note(o.CancelAt, false)
				limit(o.CancelAt, "cancel")
			}
		}
	}
	if d := sc.timeout(); d > 0 {
		limit(d, "timeout")
	} else if d < 0 {
		// A budget that has already run out ("Timeout: time.Until(deadline)"):
		// the dial timeout has elapsed when Dial is called, so Dial returns
		// without any virtual time passing.
		limit(0, "timeout-already-elapsed")
	}

	if o.AtReturn.Runaway > 0 {
		v.Outcome = "runaway"
		v.Violation = fmt.Sprintf("Dial keeps retrying I/O after the deadline passed or the conn was closed (%d calls) instead of returning; once the conn reported a fatal error Dial returned err=%v at %v (due at %v: %v), conn closed: %v",
			o.AtReturn.Runaway, o.Err, o.TR, v.Bound, v.HasBound, o.AtReturn.Closed)
		return
	}
	// the dial timeout is the earliest limit (it elapses before the caller's context ends)
	timeoutFirst := (v.HasBound && strings.HasPrefix(v.BoundKind, "timeout")) || sc.timeout() < 0
	origBound := v.Bound
	if sc.DialIgnoresCtx && v.HasBound && o.NetDials > 0 && v.Bound < o.NetDialDone {
		// Dial cannot return before a NetDial that does not look at its context
		v.Bound = o.NetDialDone
		v.BoundKind += "+netdial-ignores-ctx"
	}
	if !o.Returned {
		v.Outcome = "never-returned"
		v.Violation = fmt.Sprintf("Dial never returned, even after the watchdog cancelled the context and the peer went away at %v (synctest: %s)", watchdogAfter, o.Deadlock)
		return
	}
	if o.NetDials == 0 && !sc.refused() {
		v.Outcome = "netdial-bypassed"
		v.Violation = fmt.Sprintf("Dial returned (err=%v) without ever calling the configured Dialer.NetDial: the dialer's configuration was ignored", o.Err)
		return
	}
	switch {
	case o.Rescued:
		v.Outcome = "rescued"
	case o.Err == nil:
		v.Outcome = "ok"
	case errors.Is(o.Err, context.Canceled), errors.Is(o.Err, context.DeadlineExceeded):
		v.Outcome = "ctx-error"
	case isNetTimeout(o.Err):
		v.Outcome = "net-timeout"
	default:
		v.Outcome = "other-error"
	}

	// "Dial returns once the context ends or the configured dial timeout
	// elapses, whichever is first". Virtual time makes this exact: the clock
	// only moves while Dial is blocked.
	slack := time.Duration(0)
	if sc.Peer.SlowDL {
		slack = dlSlack // the conn's own latency in applying a deadline
	}
	// "On a connection that honours deadlines": a conn that rejects the
	// deadline and does not apply it is none, once Dial works on it.
	deaf := sc.Peer.DLFault == "err-ignored" && o.ConnObtained
	if deaf && v.HasBound && (o.Rescued || o.TR > v.Bound+slack) {
		v.Open = "conn-does-not-honour-deadlines"
	}
	if v.HasBound && !deaf && (o.Rescued || o.TR > v.Bound+slack) {
		v.Violation = fmt.Sprintf("Dial was due to return at %v (%s) but returned at %v (watchdog fired: %v)", v.Bound, v.BoundKind, o.TR, o.Rescued)
		return
	}
	if o.Rescued && v.Open == "" {
		v.Open = "unbounded-wait" // no context end, no timeout: waiting on the peer is legal
	}

	if v.HasBound && !deaf && strings.HasPrefix(v.BoundKind, "timeout") && sc.timeout() > 0 && o.TR >= v.Bound && o.Err == nil {
		v.Violation = fmt.Sprintf("the dial timeout (%v) fired while Dial was blocked, yet Dial returned a nil error at %v", sc.timeout(), o.TR)
		return
	}
	if sc.timeout() < 0 && !deaf && o.Err == nil {
		v.Violation = fmt.Sprintf("Dialer.Timeout = %v has elapsed before Dial was called, yet Dial returned a nil error", sc.timeout())
		return
	}

	// nil + clean conn, or error + closed conn.
	st := o.AtReturn
	if o.Err == nil {
		switch {
		case o.ConnNil:
			v.Violation = "Dial returned a nil error and a nil conn"
		case !o.ConnObtained:
			v.Violation = "Dial returned a nil error although NetDial gave it no conn"
		case o.NotTop:
			v.Violation = "Dial returned a nil error and a conn that is not the one TLSClient/WrapConn (or NetDial) returned last"
		case st.LayerShut != "":
			v.Violation = "Dial returned a nil error but had closed the conn (layer " + st.LayerShut + ")"
		case st.LayerDL != "":
			v.Violation = "Dial returned a nil error but left a deadline on the conn: layer " + st.LayerDL
		case st.Closed:
			v.Violation = "Dial returned a nil error but had closed the conn"
		case !st.RD.IsZero() || !st.WD.IsZero():
			v.Violation = fmt.Sprintf("Dial returned a nil error but left a deadline on the conn (read %s, write %s)", dlArg(st.RD), dlArg(st.WD))
		}
	} else if o.ConnObtained && !st.Closed {
		v.Violation = fmt.Sprintf("Dial returned error %q without closing the conn", o.Err)
	} else if o.ConnObtained && st.LayerOpen != "" {
		v.Violation = fmt.Sprintf("Dial returned error %q without closing the outer conn (layer %s never saw Close)", o.Err, st.LayerOpen)
	}
	if v.Violation != "" {
		return
	}
	if late := touches(o.Log[st.LogLen:]); len(late) > 0 {
		v.Violation = fmt.Sprintf("the conn was touched after Dial had returned: %v", renderLog(late))
		return
	}

	// "if the context ended before the handshake I/O finished, the error is
	// the context's error"
	if sc.refused() && !o.ConnObtained {
		// no handshake I/O exists for a URL that is refused up front: the
		// error is the URL's, whatever the context does
		ctxEnds = false
		if v.Open == "" {
			v.Open = "url-refused"
		}
	}
	if sc.DialIgnoresCtx && ctxEnds && (!o.ConnObtained || (timeoutFirst && o.NetDialDone >= origBound)) {
		// NetDial's own error stands; and when both the dial timeout and the
		// context had ended while NetDial ignored them, either end may be
		// reported (the timeout was first)
		ctxEnds = false
		if v.Open == "" {
			v.Open = "netdial-ignored-its-context"
		}
	}
	if ctxEnds && pl.Kind != "pre" && sc.timeout() != 0 && ctxEnd >= maxZero(sc.timeout()) {
		// The dial timeout fired before the context ended (Dial was still
		// running because the harness cancelled at an I/O call made on the
		// already expired conn, or because the conn does not apply deadlines):
		// the timeout's error stands.
		ctxEnds = false
		if v.Open == "" {
			v.Open = "context-ended-after-the-timeout-fired"
		}
	}
	lastInstant := false
	if ctxEnds && !o.Rescued {
		switch {
		case pl.Kind == "pre":
			v.MustCtx = true
		case ctxEndTimed:
			// Dial was blocked in NetDial or in a Read/Write at that instant.
			v.MustCtx = o.TR >= ctxEnd
		case pl.Kind == "dial-return":
			v.MustCtx = true
		case pl.Kind == "io" && pl.Before:
			v.MustCtx = true
		case pl.Kind == "io" && pl.Forced:
			// after operation i took effect: the context ended before the
			// handshake I/O finished iff more I/O followed
			// ... or the watcher has acted before that last call returned:
			// the forced order "poisoned, then finished"
			v.MustCtx = true
			lastInstant = !ioAfter(o.Log, o.CancelSeq)
		case pl.Kind == "io":
			v.Open = "ended-inside-last-io/unforced"
		}
	}
	if v.MustCtx {
		// With slow Set*Deadline calls the watcher may still be applying the
		// poison while the handshake reads on; a response that is wrong in
		// itself is then reported as such ("the error is that error").
		// wsutil.DebugDialer with OnResponse reads the whole response head
		// ahead of ws.Dialer: bytes that make Dialer fail by themselves (a
		// 400 status line) may already be there while the prefetch is still
		// blocked, and are handed over when the poison ends it.
		prefetch := sc.Entry == "debug" && (sc.Debug == "both" || sc.Debug == "resp")
		// (on a conn that does not apply deadlines the poison never lands)
		ownFailure := (sc.Peer.SlowDL || lastInstant || prefetch || deaf) && o.Err != nil && !isNetTimeout(o.Err) &&
			(sc.Peer.Resp != "valid" || sc.Peer.Deliver >= 0 || sc.Peer.EOF) && !errors.Is(o.Err, errCause)
		switch {
		case o.CtxErrAtReturn == nil:
			v.Infra = "harness inconsistency: the context should have ended before Dial returned but ctx.Err() was nil"
		case ownFailure && !errors.Is(o.Err, o.CtxErrAtReturn):
			v.Open = "handshake-failed-by-itself-while-poison-in-flight"
			if lastInstant && !sc.Peer.SlowDL {
				v.Open = "handshake-failed-by-itself-in-its-last-io"
			} else if prefetch && !sc.Peer.SlowDL {
				v.Open = "handshake-failed-by-itself-on-prefetched-bytes"
			}
		case o.Err == nil:
			v.Violation = fmt.Sprintf("the context ended (%v) before the handshake I/O finished, yet Dial returned a nil error", o.CtxErrAtReturn)
		case errors.Is(o.Err, errCause):
			v.Violation = fmt.Sprintf("the context ended before the handshake I/O finished; its error is %q, yet Dial returned the cancellation cause %q", o.CtxErrAtReturn, o.Err)
		case !errors.Is(o.Err, o.CtxErrAtReturn):
			v.Violation = fmt.Sprintf("the context ended (%v) before the handshake I/O finished, yet Dial returned %q", o.CtxErrAtReturn, o.Err)
		}
		if v.Violation != "" || v.Infra != "" {
			return
		}
	}

	// "the goroutine that watches the context has finished by the time Dial
	// returns"
	if o.Leaked > 0 {
		when := "after Dial returned and every goroutine had settled"
		if o.LeakedLate {
			when += ", and still an hour later"
		}
		v.Violation = fmt.Sprintf("%d goroutine(s) started during Dial still alive %s:\n%s", o.Leaked, when, o.LeakDump)
		return
	}
	if o.Deadlock != "" {
		v.Violation = "a goroutine started during Dial never finished (synctest: " + o.Deadlock + ")"
		return
	}

	// evidence: did the end of the context / the timeout land while the conn
	// was in Dial's hands, or exactly at completion?
	if o.ConnObtained {
		switch {
		case pl.Kind == "after-return" && sc.cancellable():
			v.NonTriv = true
		case o.CancelAt >= 0 && (pl.Kind == "io" || pl.Kind == "dial-return"):
			v.NonTriv = true
		case v.HasBound && o.TR >= v.Bound && o.ObtainedAt <= v.Bound && pl.Kind != "pre":
			v.NonTriv = true
		}
	}
	return
}
