// Package hx is the glue between the property packages and the driver
// (/verif/check): per-process evidence counters, the rapid wrapper that scales
// case counts by tier, and the read-only view on known_findings.json.
package hx

import (
	"encoding/json"
	"flag"
	"fmt"
	"hash/fnv"
	"os"
	"sort"
	"strconv"
	"sync"
	"testing"
	"time"

	"pgregory.net/rapid"
)

// ---------------------------------------------------------------------------
// configuration (all from the environment, set by the driver)

var (
	Tier     = envStr("VERIF_TIER", "quick")
	Shard    = envInt("VERIF_SHARD", 0)
	NShards  = envInt("VERIF_NSHARDS", 1)
	base     = envInt("VERIF_CHECKS", 300)
	evPath   = os.Getenv("VERIF_EVIDENCE")
	knownSrc = envStr("VERIF_KNOWN", "/verif/known_findings.json")
)

func envStr(k, d string) string {
	if v := os.Getenv(k); v != "" {
		return v
	}
	return d
}

func envInt(k string, d int) int {
	if v := os.Getenv(k); v != "" {
		if n, err := strconv.Atoi(v); err == nil {
			return n
		}
	}
	return d
}

// Thorough reports whether the thorough tier is running.
func Thorough() bool { return Tier == "thorough" }

// Pick returns q in the quick tier and th in the thorough tier.
func Pick(q, th int) int {
	if Thorough() {
		return th
	}
	return q
}

// Mine reports whether deterministic work item i belongs to this shard.
// Exhaustive sub-spaces are partitioned over shards with it.
func Mine(i int) bool {
	if NShards <= 1 {
		return true
	}
	return i%NShards == Shard
}

// ---------------------------------------------------------------------------
// evidence

type part struct {
	Name       string `json:"name"`
	Size       int64  `json:"size"`
	Exhaustive bool   `json:"exhaustive"`
}

type sample struct {
	key uint64
	val interface{}
}

type failure struct {
	Test string      `json:"test"`
	Case interface{} `json:"case"`
	Msg  string      `json:"msg"`
}

type knownObs struct {
	Sig  string `json:"sig"`
	What string `json:"what"`
}

var (
	mu        sync.Mutex
	property  string
	evals     int64
	classes   = map[string]int64{}
	distinct  = map[uint64]struct{}{}
	samples   []sample
	parts     = map[string]*part{}
	excluded  = map[string]int64{}
	observed  = map[string]knownObs{}
	stale     []string
	failures  []failure
	startTime = time.Now()
)

const maxSamples = 8

// Eval counts one executed case.
func Eval() {
	mu.Lock()
	evals++
	mu.Unlock()
}

// EvalN counts n executed cases.
func EvalN(n int) {
	mu.Lock()
	evals += int64(n)
	mu.Unlock()
}

// Class adds the case to a histogram bucket.
func Class(label string) {
	mu.Lock()
	classes[label]++
	mu.Unlock()
}

// ClassN adds n cases to a histogram bucket.
func ClassN(label string, n int) {
	mu.Lock()
	classes[label] += int64(n)
	mu.Unlock()
}

// Hash folds its arguments into a 64-bit FNV-1a hash.
func Hash(parts ...interface{}) uint64 {
	h := fnv.New64a()
	for _, p := range parts {
		switch v := p.(type) {
		case []byte:
			h.Write(v)
		case string:
			h.Write([]byte(v))
		default:
			fmt.Fprint(h, v)
		}
		h.Write([]byte{0xff})
	}
	return h.Sum64()
}

// NonTrivial records one non-trivial case by its shape hash and offers it to
// the sample reservoir (the maxSamples smallest hashes are kept, so the choice
// is deterministic); render is only called for kept cases.
func NonTrivial(key uint64, render func() interface{}) {
	mu.Lock()
	defer mu.Unlock()
	if _, dup := distinct[key]; dup {
		return
	}
	distinct[key] = struct{}{}
	if render == nil {
		return
	}
	if len(samples) < maxSamples {
		samples = append(samples, sample{key, render()})
		return
	}
	worst := 0
	for i := range samples {
		if samples[i].key > samples[worst].key {
			worst = i
		}
	}
	if key < samples[worst].key {
		samples[worst] = sample{key, render()}
	}
}

// Part records a sub-space that was enumerated (exhaustive) or sampled.
func Part(name string, size int64, exhaustive bool) {
	mu.Lock()
	defer mu.Unlock()
	if p, ok := parts[name]; ok {
		p.Size += size
		return
	}
	parts[name] = &part{name, size, exhaustive}
}

// ---------------------------------------------------------------------------
// known findings

type finding struct {
	Status   string `json:"status"`
	Property string `json:"property"`
	Sig      string `json:"sig"`
	What     string `json:"what"`
	Commit   string `json:"commit,omitempty"`
}

var (
	knownOnce sync.Once
	knownSet  map[string]finding
)

func loadKnown() {
	knownSet = map[string]finding{}
	b, err := os.ReadFile(knownSrc)
	if err != nil {
		return
	}
	var doc struct {
		Findings []finding `json:"findings"`
	}
	if json.Unmarshal(b, &doc) != nil {
		return
	}
	for _, f := range doc.Findings {
		if f.Status == "known" {
			knownSet[f.Sig] = f
		}
	}
}

// Known reports whether sig is listed as a known (unrepaired) finding.
func Known(sig string) bool {
	knownOnce.Do(loadKnown)
	_, ok := knownSet[sig]
	return ok
}

// Exclude counts a generated case that was skipped because it matches the
// predicate of a listed known finding.
func Exclude(sig string) {
	mu.Lock()
	excluded[sig]++
	mu.Unlock()
}

// Probe is the dedicated regression case of a finding signature: present says
// whether the defect shows on the tree under test. A present defect that is
// listed is reported as KNOWN-FINDING by the driver; one that is not listed is
// a violation.
func Probe(t *testing.T, sig, what string, present bool, caseDesc interface{}) {
	t.Helper()
	switch {
	case present && Known(sig):
		mu.Lock()
		observed[sig] = knownObs{sig, what}
		mu.Unlock()
	case present:
		Failf(t, caseDesc, "%s: %s", sig, what)
	case Known(sig):
		mu.Lock()
		stale = append(stale, sig)
		mu.Unlock()
	}
}

// ---------------------------------------------------------------------------
// failing deterministic cases

// Failf marks the test failed and records the case for the replay file.
func Failf(t testing.TB, c interface{}, format string, args ...interface{}) {
	t.Helper()
	msg := fmt.Sprintf(format, args...)
	mu.Lock()
	if len(failures) < 20 {
		failures = append(failures, failure{t.Name(), c, msg})
	}
	mu.Unlock()
	t.Errorf("%s\ncase: %s", msg, JSON(c))
}

// JSON renders v compactly for messages.
func JSON(v interface{}) string {
	b, err := json.Marshal(v)
	if err != nil {
		return fmt.Sprintf("%+v", v)
	}
	return string(b)
}

// ---------------------------------------------------------------------------
// rapid wrapper

// Check runs prop for weight × the tier's base case count.
func Check(t *testing.T, weight float64, prop func(*rapid.T)) {
	t.Helper()
	n := int(float64(base) * weight)
	if n < 1 {
		n = 1
	}
	if err := flag.Set("rapid.checks", strconv.Itoa(n)); err != nil {
		t.Fatalf("cannot set rapid.checks: %v", err)
	}
	rapid.Check(t, prop)
}

// ---------------------------------------------------------------------------
// process entry/exit

// Main wraps testing.M: runs the tests and dumps the evidence of this process.
func Main(m *testing.M, prop string) {
	property = prop
	code := m.Run()
	flush()
	os.Exit(code)
}

func flush() {
	if evPath == "" {
		return
	}
	mu.Lock()
	defer mu.Unlock()
	sort.Slice(samples, func(i, j int) bool { return samples[i].key < samples[j].key })
	sv := make([]interface{}, 0, len(samples))
	for _, s := range samples {
		sv = append(sv, s.val)
	}
	hashes := make([]string, 0, len(distinct))
	for h := range distinct {
		hashes = append(hashes, strconv.FormatUint(h, 16))
	}
	sort.Strings(hashes)
	pv := make([]*part, 0, len(parts))
	for _, p := range parts {
		pv = append(pv, p)
	}
	sort.Slice(pv, func(i, j int) bool { return pv[i].Name < pv[j].Name })
	ov := make([]knownObs, 0, len(observed))
	for _, o := range observed {
		ov = append(ov, o)
	}
	sort.Slice(ov, func(i, j int) bool { return ov[i].Sig < ov[j].Sig })
	out := map[string]interface{}{
		"property":    property,
		"shard":       Shard,
		"evaluations": evals,
		"classes":     classes,
		"hashes":      hashes,
		"samples":     sv,
		"parts":       pv,
		"excluded":    excluded,
		"known_seen":  ov,
		"known_stale": stale,
		"failures":    failures,
		"wall_s":      time.Since(startTime).Seconds(),
	}
	b, err := json.Marshal(out)
	if err == nil {
		err = os.WriteFile(evPath, b, 0o644)
	}
	if err != nil {
		fmt.Fprintf(os.Stderr, "hx: cannot write evidence: %v\n", err)
	}
}
