module verif/harness

go 1.23

require (
	github.com/gobwas/httphead v0.1.0
	github.com/gobwas/pool v0.2.1
	github.com/gobwas/ws v0.0.0
	pgregory.net/rapid v1.3.0
)

require golang.org/x/sys v0.6.0 // indirect

replace github.com/gobwas/ws => /repo
