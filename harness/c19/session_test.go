// Sessions: one connection driven through handshake, message exchange in both
// directions, control handling and compression, decomposed into API-call steps.
//
// A template (drawn by rapid) fixes the *shape* of a session: role, handshake
// mode, counts and lengths of protocols/extensions, buffer sizes, the list of
// steps with their payload sizes, fragmentations and transport chunk plans.
// The *content* of everything a session sends or receives is a pure function
// of its id, so two sessions of the same template move different bytes of the
// same lengths through the same pool size classes.
//
// Every step appends to the session's normalised transcript: handshake results
// (deep-rendered), frames sent (parsed by the reference codec, unmasked),
// messages received, errors (type and text). Mask bytes and the client nonce
// come from math/rand's global source, which all sessions share; they are
// never recorded (the transcript only says that the key has 24 base64 chars).
package c19

import (
	"bufio"
	"bytes"
	"compress/flate"
	"context"
	"crypto/sha1"
	"crypto/tls"
	"encoding/base64"
	"errors"
	"fmt"
	"hash/fnv"
	"io"
	"net"
	"net/http"
	"net/url"
	"reflect"
	"sort"
	"strings"
	"sync"
	"sync/atomic"
	"time"

	"github.com/gobwas/httphead"
	"github.com/gobwas/ws"
	"github.com/gobwas/ws/wsflate"
	"github.com/gobwas/ws/wsutil"
	"pgregory.net/rapid"

	"verif/harness/gen"
	"verif/harness/ref"
	"verif/harness/tx"
)

// ---------------------------------------------------------------------------
// templates

type hsShape struct {
	Mode      string   // server: upgrader | upgrader-flate | default | http | http-flate | http-default; client: dialer | dialer-flate | default
	ProtoLens []int    // lengths of the offered subprotocols
	Pick      int      // index of the protocol the server side selects
	ExtLens   []int    // lengths of the offered (non-deflate) extension names
	ParamLens [][2]int // per extension: key length, value length (0,0 = no parameter)
	BufSize   int      // Read/WriteBufferSize of the Upgrader/Dialer (0 = default)
	HdrLen    int      // length of a filler header value (0 = none)
	Trailing  int      // client: payload size of a frame the server sends right behind its response (-1 = none)
	Chunks    []int    // chunk plan of the transport the handshake is read from
	Sel       int      // shared-upgrader/shared-http: which of the case's shared selectors (SelectEqual, SelectFromSlice over 1/16/17/40 protocols)
}

type stepSpec struct {
	Kind   string
	Size   int
	Text   bool
	Frag   int   // fragments of an incoming message / pieces of a Writer message
	Ctl    int   // size of the ping in front of / inside an incoming message (-1 = none)
	WSize  int   // GetWriter size
	Chunks []int // chunk plan of the incoming transport
	Which  int   // selector (precompiled frame, close code, helper flavour)
	Cap    bool  // the caller's payload buffer has a capacity that is exactly a pool class (make([]byte, n, class))
}

type template struct {
	Client bool
	HS     hsShape
	Steps  []stepSpec
	TCP    bool // the case may use the loopback listener (tcp-dial steps)
	Yield  int // layer 2: runtime.Gosched() at every Yield-th transport call (0 = never)
}

func (tp template) role() string {
	if tp.Client {
		return "client"
	}
	return "server"
}

func (tp template) flate() bool { return strings.HasSuffix(tp.HS.Mode, "-flate") }

var payloadSizes = []int{0, 1, 5, 60, 120, 125, 126, 127, 128, 129, 250, 500, 1000, 2000, 4000, 4096, 5000, 16000, 33000, 65000, 65536, 70000}
var smallSizes = []int{0, 1, 5, 60, 120, 125, 126, 127, 128, 129, 250, 500, 1000}

func drawSize(t *rapid.T, label string, light bool) int {
	if light || rapid.IntRange(0, 3).Draw(t, label+".small") > 0 {
		if light && rapid.IntRange(0, 15).Draw(t, label+".big") == 0 {
			return rapid.SampledFrom([]int{4000, 5000, 16000, 65000, 70000}).Draw(t, label)
		}
		return rapid.SampledFrom(smallSizes).Draw(t, label)
	}
	return rapid.SampledFrom(payloadSizes).Draw(t, label)
}

func drawChunks(t *rapid.T, label string, size int) []int {
	c := gen.Chunks(t, label)
	if size > 4096 && len(c) > 0 {
		// keep the number of transport calls of big payloads bounded
		out := make([]int, len(c))
		for i, v := range c {
			out[i] = v * 97
		}
		return out
	}
	return c
}

var plainKinds = []string{"write-msg", "writer", "writer", "writer-fail", "ownbuf", "cipher-writer", "cipher-reader", "readfrom", "control-writer", "mask-helpers", "reject", "reject", "reject-fresh", "bad-handshake", "shared-upgrade", "ext-writer", "shared-send", "send-close", "read-data", "read-msg", "reader", "ping", "ping", "pong", "compiled"}
var flateKinds = []string{"flate-send", "flate-send", "flate-recv", "flate-recv", "flate-bytes", "flate-writer", "flate-writer", "flate-writer", "flate-reader"}

// drawTemplate draws the shape of a session. light = layer 2 (many sessions per case).
func drawTemplate(t *rapid.T, light, tcp bool) template {
	var tp template
	tp.TCP = tcp
	tp.Client = rapid.Bool().Draw(t, "client")
	h := &tp.HS
	if tp.Client {
		h.Mode = rapid.SampledFrom([]string{"dialer", "dialer", "dialer-flate", "default", "shared-dialer", "debug-dialer"}).Draw(t, "mode")
	} else {
		h.Mode = rapid.SampledFrom([]string{"upgrader", "upgrader", "upgrader-flate", "default", "http", "http-flate", "http-default", "shared-upgrader", "shared-http"}).Draw(t, "mode")
	}
	h.Sel = rapid.IntRange(0, len(protoLists)-1).Draw(t, "selector")
	for i := rapid.IntRange(1, 3).Draw(t, "nproto"); i > 0; i-- {
		h.ProtoLens = append(h.ProtoLens, rapid.IntRange(1, 12).Draw(t, "plen"))
	}
	h.Pick = rapid.IntRange(0, len(h.ProtoLens)-1).Draw(t, "pick")
	for i := rapid.IntRange(0, 2).Draw(t, "next"); i > 0; i-- {
		h.ExtLens = append(h.ExtLens, rapid.IntRange(2, 14).Draw(t, "elen"))
		if rapid.Bool().Draw(t, "param") {
			h.ParamLens = append(h.ParamLens, [2]int{rapid.IntRange(1, 8).Draw(t, "klen"), rapid.IntRange(1, 8).Draw(t, "vlen")})
		} else {
			h.ParamLens = append(h.ParamLens, [2]int{0, 0})
		}
	}
	h.BufSize = rapid.SampledFrom([]int{0, 0, 256, 512, 1024, 4096}).Draw(t, "bufsize")
	if rapid.Bool().Draw(t, "filler") {
		h.HdrLen = rapid.SampledFrom([]int{10, 100, 300, 900}).Draw(t, "hdrlen")
	}
	h.Trailing = -1
	if tp.Client && rapid.IntRange(0, 2).Draw(t, "trailing?") > 0 {
		h.Trailing = rapid.SampledFrom([]int{0, 5, 100, 126, 300, 1000}).Draw(t, "trailing")
	}
	h.Chunks = gen.Chunks(t, "hs.chunks")

	kinds := plainKinds
	if tp.Client {
		kinds = append(append([]string(nil), plainKinds...), "wss-dial")
		if tcp {
			kinds = append(kinds, "tcp-dial", "tcp-dial", "tcp-dial")
		}
	}
	if tp.flate() {
		kinds = append(append([]string(nil), kinds...), flateKinds...)
		if !light {
			kinds = append(kinds, flateKinds...)
		}
	}
	lo, hi := 2, 8
	if light {
		lo, hi = 1, 5
	}
	n := rapid.IntRange(lo, hi).Draw(t, "nsteps")
	for i := 0; i < n; i++ {
		var s stepSpec
		s.Kind = rapid.SampledFrom(kinds).Draw(t, "kind")
		s.Size = drawSize(t, "size", light)
		s.Text = rapid.Bool().Draw(t, "text")
		s.Frag = rapid.IntRange(1, 3).Draw(t, "frag")
		s.Ctl = -1
		if rapid.Bool().Draw(t, "ctl?") {
			s.Ctl = rapid.SampledFrom([]int{0, 1, 7, 60, 122, 123, 125}).Draw(t, "ctl")
		}
		s.WSize = rapid.SampledFrom([]int{128, 200, 512, 4096}).Draw(t, "wsize")
		s.Which = rapid.IntRange(0, 15).Draw(t, "which")
		s.Cap = rapid.Bool().Draw(t, "capclass")
		switch s.Kind {
		case "ping", "pong", "control-writer":
			s.Size = s.Size % 126
		case "flate-send", "flate-recv", "flate-bytes", "flate-writer", "flate-reader":
			if s.Size > 16000 {
				s.Size = 16000
			}
		}
		s.Chunks = drawChunks(t, "chunks", s.Size)
		tp.Steps = append(tp.Steps, s)
	}
	if light {
		// layer 2: every session goes through one of the run's shared upgraders
		// right after its own handshake, i.e. all of them at about the same time
		// and (for the run's selectors) for the first time
		first := stepSpec{Kind: "shared-upgrade", Which: rapid.IntRange(0, 15).Draw(t, "shared-upgrade"), Chunks: gen.Chunks(t, "su.chunks"), Ctl: -1, Frag: 1}
		fresh := stepSpec{Kind: "reject-fresh", Chunks: gen.Chunks(t, "rf.chunks"), Ctl: -1, Frag: 1}
		tp.Steps = append([]stepSpec{fresh, first}, tp.Steps...)
	}
	switch rapid.IntRange(0, 3).Draw(t, "end") {
	case 0, 1:
		tp.Steps = append(tp.Steps, stepSpec{Kind: "close", Size: rapid.SampledFrom([]int{0, 2, 10, 60, 121, 123}).Draw(t, "closelen"),
			Which: rapid.IntRange(0, 15).Draw(t, "code"), Chunks: gen.Chunks(t, "close.chunks"), Ctl: -1})
	case 2:
		tp.Steps = append(tp.Steps, stepSpec{Kind: "close-bad", Size: rapid.SampledFrom([]int{2, 10, 60}).Draw(t, "closelen"),
			Chunks: gen.Chunks(t, "close.chunks"), Ctl: -1})
	}
	if light {
		tp.Yield = rapid.SampledFrom([]int{0, 1, 1, 2, 3, 5}).Draw(t, "yield")
	}
	return tp
}

// ---------------------------------------------------------------------------
// content derived from the session id

func content(id, tag, n int, text bool) []byte {
	x := (uint64(id)+1)*0x9E3779B97F4A7C15 ^ (uint64(tag)+1)*0xBF58476D1CE4E5B9 ^ 0x94D049BB133111EB
	b := make([]byte, n)
	for i := range b {
		x ^= x << 13
		x ^= x >> 7
		x ^= x << 17
		if text {
			b[i] = 'a' + byte((x>>32)%26)
		} else {
			b[i] = byte(x >> 32)
		}
	}
	return b
}

func word(id, tag, n int) string { return string(content(id, tag, n, true)) }

func peerMask(id, tag int) (k [4]byte) {
	copy(k[:], content(id, tag, 4, false))
	return k
}

const guid = "258EAFA5-E914-47DA-95CA-C5AB0DC85B11"

func acceptFor(key string) string {
	h := sha1.Sum([]byte(key + guid))
	return base64.StdEncoding.EncodeToString(h[:])
}

// ---------------------------------------------------------------------------
// rendering

func digest(p []byte) string {
	h := fnv.New64a()
	h.Write(p)
	head := p
	if len(head) > 10 {
		head = head[:10]
	}
	return fmt.Sprintf("%d:%016x:%q", len(p), h.Sum64(), head)
}

// renderWire parses what a session wrote to its connection. Only unmasked
// payloads and header bits are rendered; mask bytes never are.
func renderWire(b []byte) string {
	fs, rest, _ := ref.ParseFrames(b)
	var sb strings.Builder
	sb.WriteString("[")
	for i, f := range fs {
		if i > 0 {
			sb.WriteString(" ")
		}
		fmt.Fprintf(&sb, "{fin=%t rsv=%d op=%x masked=%t %s}", f.H.Fin, f.H.Rsv, f.H.Op, f.H.Masked, digest(f.Payload))
	}
	sb.WriteString("]")
	if len(rest) > 0 {
		fmt.Fprintf(&sb, " unparsed=%d", len(rest))
	}
	return sb.String()
}

// renderMessage renders what a pooled Writer sent without its fragment
// boundaries: opcode of the first frame, whether the frames form one message
// (continuations, FIN on the last only, uniform masking, no RSV bits), payload.
func renderMessage(b []byte) string {
	fs, rest, _ := ref.ParseFrames(b)
	if len(fs) == 0 {
		return fmt.Sprintf("[] unparsed=%d", len(rest))
	}
	wellFormed := len(rest) == 0
	var payload []byte
	for i, f := range fs {
		if (i > 0 && f.H.Op != ref.OpCont) || f.H.Fin != (i == len(fs)-1) || f.H.Masked != fs[0].H.Masked || f.H.Rsv != 0 {
			wellFormed = false
		}
		payload = append(payload, f.Payload...)
	}
	return fmt.Sprintf("{message op=%x masked=%t one-message=%t %s}", fs[0].H.Op, fs[0].H.Masked, wellFormed, digest(payload))
}

// wirePayload concatenates the data frames of b; ok says that b is a sequence
// of whole frames forming one message: first opcode op, continuations after it,
// FIN on the last frame only, masked as the side requires.
func wirePayload(b []byte, op byte, masked bool) (out []byte, ok bool) {
	fs, rest, _ := ref.ParseFrames(b)
	ok = len(rest) == 0
	var data []ref.Frame
	for _, f := range fs {
		if !ref.IsControl(f.H.Op) {
			data = append(data, f)
		}
	}
	for i, f := range data {
		want := op
		if i > 0 {
			want = ref.OpCont
		}
		if f.H.Op != want || f.H.Fin != (i == len(data)-1) || f.H.Masked != masked {
			ok = false
		}
		out = append(out, f.Payload...)
	}
	return out, ok
}

func renderOption(o httphead.Option) string {
	var b strings.Builder
	b.Write(o.Name)
	o.Parameters.ForEach(func(k, v []byte) bool {
		b.WriteString(";")
		b.Write(k)
		b.WriteString("=")
		b.Write(v)
		return true
	})
	return b.String()
}

func renderHS(hs ws.Handshake) string {
	var b strings.Builder
	b.WriteString("proto=")
	b.WriteString(hs.Protocol)
	for _, o := range hs.Extensions {
		b.WriteString(" | ")
		b.WriteString(renderOption(o))
	}
	return strings.Clone(b.String())
}

func renderErr(err error) string {
	if err == nil {
		return "<nil>"
	}
	return fmt.Sprintf("%T(%v)", err, err)
}

// renderHead normalises an HTTP head: start line, then the header lines
// sorted, with the value of Sec-WebSocket-Key replaced by its form.
func renderHead(head string) string {
	lines := strings.Split(strings.TrimSuffix(head, "\r\n\r\n"), "\r\n")
	hdr := append([]string(nil), lines[1:]...)
	for i, l := range hdr {
		if strings.HasPrefix(l, "Sec-WebSocket-Key: ") {
			k := strings.TrimPrefix(l, "Sec-WebSocket-Key: ")
			raw, err := base64.StdEncoding.DecodeString(k)
			hdr[i] = fmt.Sprintf("Sec-WebSocket-Key: <%d chars, %d bytes, b64ok=%t>", len(k), len(raw), err == nil)
		}
	}
	sort.Strings(hdr)
	return lines[0] + " || " + strings.Join(hdr, " | ")
}

// ---------------------------------------------------------------------------
// session

type session struct {
	id  int
	tpl *template
	ops []op
	pc  int
	tr  []string

	state ws.State
	env   *sharedEnv
	io    func() // called at every transport Read/Write of this session (nil = nothing)

	hsErr  error
	hs     ws.Handshake
	br     *bufio.Reader // returned by Dialer.Upgrade
	peer   *lazyPeer
	w      *wsutil.Writer
	wrec   *tx.Rec
	wsent  []byte
	rd     *wsutil.Reader
	fw     *wsflate.Writer
	fwOut  *wsutil.Writer
	msgW   wsflate.MessageState
	fr     *wsflate.Reader
	msgR   wsflate.MessageState
	helper wsflate.Helper
	ext    wsflate.Extension
	closed bool
	extW   *wsutil.Writer
	extRec *tx.Rec
	cw     *wsutil.CipherWriter
	cwRec  *tx.Rec
	cr     *wsutil.CipherReader
	crGot  []byte
	rfW    *wsutil.Writer
	rfRec  *tx.Rec
	ctlW   *wsutil.ControlWriter
	ctlRec *tx.Rec
	ownBuf []byte    // caller-owned Writer buffer whose capacity is a pool class
	ownW   *wsutil.Writer
	ownRec *tx.Rec
	ownMsg []byte
	kept   []keptBuf // caller-owned buffers handed to write calls; they stay the session's

	overlap bool   // layer 2: another session was inside a step at the same time
	panicked string // layer 2: recovered panic
}

// op is one API-call step of a session.
type op struct {
	name  string
	fam   string // family for the back-to-back rule
	class int    // pool size class (0 = none)
	spec  stepSpec
	idx   int // index of the spec step (content tag base)
	part  int
}

func sizeClass(n int) int {
	if n > 65536 {
		return 0
	}
	c := 128
	for c < n {
		c <<= 1
	}
	return c
}

func newSession(id int, tp *template) *session {
	s := &session{id: id, tpl: tp}
	if tp.Client {
		s.state = ws.StateClientSide
	} else {
		s.state = ws.StateServerSide
	}
	hb := tp.HS.BufSize
	if hb == 0 {
		hb = 4096
	}
	s.ops = append(s.ops, op{name: "handshake", fam: "handshake/" + tp.role(), class: hb})
	if tp.Client && tp.HS.Trailing >= 0 && tp.HS.Mode != "debug-dialer" {
		s.ops = append(s.ops, op{name: "br-read", fam: "br", class: hb}, op{name: "br-put", fam: "br", class: hb})
	}
	for i, sp := range tp.Steps {
		o := op{name: sp.Kind, fam: sp.Kind, class: sizeClass(sp.Size + 14), spec: sp, idx: i}
		switch sp.Kind {
		case "writer":
			o.fam, o.class = "writer", sizeClass(sp.WSize)
			g := o
			g.name = "writer-get"
			s.ops = append(s.ops, g)
			for p := 0; p < sp.Frag; p++ {
				wr := o
				wr.name, wr.part = "writer-write", p
				s.ops = append(s.ops, wr)
			}
			f, p := o, o
			f.name, p.name = "writer-flush", "writer-put"
			s.ops = append(s.ops, f, p)
		case "writer-fail":
			o.fam, o.class = "writer", sizeClass(sp.WSize)
			s.ops = append(s.ops, o)
		case "cipher-writer", "cipher-reader", "control-writer":
			a, b := o, o
			a.name, b.name = sp.Kind+"-1", sp.Kind+"-2"
			s.ops = append(s.ops, a, b)
		case "ext-writer":
			o.fam, o.class = "writer", sizeClass(sp.WSize)
			a, b, c, d := o, o, o, o
			a.name, b.name, c.name, d.name = "extw-get", "extw-write", "extw-flush", "extw-put"
			s.ops = append(s.ops, a, b, c, d)
		case "readfrom":
			a, b := o, o
			a.name, b.name = "readfrom-copy", "readfrom-flush"
			s.ops = append(s.ops, a, b)
		case "ownbuf":
			o.fam, o.class = "ownbuf", sizeClass(sp.WSize)
			a, b, c := o, o, o
			a.name, b.name, c.name = "ownbuf-grow", "ownbuf-reuse-write", "ownbuf-reuse-flush"
			s.ops = append(s.ops, a, b, c)
		case "flate-writer":
			a, b := o, o
			a.name, b.name = "flate-writer-write", "flate-writer-flush"
			s.ops = append(s.ops, a, b)
		default:
			s.ops = append(s.ops, o)
		}
	}
	// at the very end the handshake result is rendered again: it must not have
	// changed while the other sessions used the pooled handshake buffers
	s.ops = append(s.ops, op{name: "hs-recheck", fam: "hs-recheck"})
	return s
}

func (s *session) done() bool { return s.pc >= len(s.ops) }

func (s *session) logf(format string, args ...interface{}) {
	name := "end"
	if s.pc < len(s.ops) {
		name = s.ops[s.pc].name
	}
	s.tr = append(s.tr, fmt.Sprintf("%d %s: ", s.pc, name)+fmt.Sprintf(format, args...))
}

// expect records a broken absolute expectation (the scripted peer knows what it sent).
func (s *session) expect(ok bool, format string, args ...interface{}) {
	if !ok {
		s.tr = append(s.tr, "!! "+fmt.Sprintf(format, args...))
	}
}

// --- transports -------------------------------------------------------------

type hookR struct {
	r io.Reader
	s *session
}

func (h hookR) Read(p []byte) (int, error) {
	if h.s.io != nil {
		h.s.io()
	}
	return h.r.Read(p)
}

type hookW struct {
	w io.Writer
	s *session
}

func (h hookW) Write(p []byte) (int, error) {
	if h.s.io != nil {
		h.s.io()
	}
	return h.w.Write(p)
}

func (s *session) src(data []byte, chunks []int) io.Reader {
	return hookR{tx.NewSrc(data, chunks), s}
}

func (s *session) dst(rec *tx.Rec) io.Writer { return hookW{rec, s} }

// lazyPeer is the client's transport during the handshake: it collects the
// request and answers it on the first Read.
type lazyPeer struct {
	s       *session
	written bytes.Buffer
	render  func(key string) []byte
	chunks  []int
	src     *tx.Src
}

func (p *lazyPeer) Write(b []byte) (int, error) {
	if p.s.io != nil {
		p.s.io()
	}
	return p.written.Write(b)
}

func (p *lazyPeer) Read(b []byte) (int, error) {
	if p.s.io != nil {
		p.s.io()
	}
	if p.src == nil {
		key := ""
		for _, line := range strings.Split(p.written.String(), "\r\n") {
			if strings.HasPrefix(line, "Sec-WebSocket-Key: ") {
				key = strings.TrimPrefix(line, "Sec-WebSocket-Key: ")
			}
		}
		p.src = tx.NewSrc(p.render(key), p.chunks)
	}
	return p.src.Read(b)
}

// --- handshake --------------------------------------------------------------

// sharedEnv holds what the sessions of ONE run share besides the package-level
// values: upgraders whose Protocol callback was made by ws.SelectEqual /
// ws.SelectFromSlice. It is created fresh for every run (each solo run, the
// interleaved run, the concurrent run), so the selectors of a concurrent run
// are used concurrently from their very first call.
type sharedEnv struct {
	up   []ws.Upgrader
	http []ws.HTTPUpgrader

	// one DebugDialer value all "debug-dialer" sessions of the run dial through
	dbg      *wsutil.DebugDialer
	dbgLeft  int32 // dials that still go through the shared value (the rest use a copy of it)
	mu       sync.Mutex
	dbgConns map[string]net.Conn // "host:80" -> the dialing session's in-memory conn
	dbgReq   map[string][][]byte // session key -> what OnRequest reported
	dbgResp  map[string][][]byte // session key -> what OnResponse reported
}

var dbgProtocols = []string{"dbg.v1", "dbg.v2"}

func (e *sharedEnv) initDebugDialer() {
	e.dbgLeft = 16
	e.dbgConns, e.dbgReq, e.dbgResp = map[string]net.Conn{}, map[string][][]byte{}, map[string][][]byte{}
	e.dbg = &wsutil.DebugDialer{
		Dialer: ws.Dialer{Protocols: dbgProtocols, NetDial: func(ctx context.Context, network, addr string) (net.Conn, error) {
			e.mu.Lock()
			defer e.mu.Unlock()
			if c, ok := e.dbgConns[addr]; ok {
				return c, nil
			}
			return nil, fmt.Errorf("harness: no in-memory peer registered for %s", addr)
		}},
		// the callbacks are shared too; a call is attributed by the session key the bytes carry
		OnRequest: func(p []byte) {
			key := "?"
			if i := bytes.Index(p, []byte("GET /")); i == 0 {
				if j := bytes.IndexByte(p[5:], ' '); j >= 0 {
					key = string(p[5 : 5+j])
				}
			}
			e.mu.Lock()
			e.dbgReq[key] = append(e.dbgReq[key], append([]byte(nil), p...))
			e.mu.Unlock()
		},
		OnResponse: func(p []byte) {
			key := "?"
			if i := bytes.Index(p, []byte("X-Session: ")); i >= 0 {
				rest := p[i+len("X-Session: "):]
				if j := bytes.Index(rest, []byte("\r\n")); j >= 0 {
					key = string(rest[:j])
				}
			}
			e.mu.Lock()
			e.dbgResp[key] = append(e.dbgResp[key], append([]byte(nil), p...))
			e.mu.Unlock()
		},
	}
}

func protoList(n int) []string {
	out := make([]string, n)
	for i := range out {
		out[i] = fmt.Sprintf("proto-%d-of-%d", i, n)
	}
	return out
}

// protoLists: index 0 is used with SelectEqual, the others with SelectFromSlice
// (16 is the last linear-scan size, 17 the first map-backed one).
var protoLists = [][]string{protoList(1), protoList(1), protoList(16), protoList(17), protoList(40)}

func newEnv() *sharedEnv {
	e := &sharedEnv{}
	for i, l := range protoLists {
		sel := ws.SelectFromSlice(l)
		if i == 0 {
			sel = ws.SelectEqual(l[0])
		}
		e.up = append(e.up, ws.Upgrader{Protocol: func(p []byte) bool { return sel(string(p)) }})
		e.http = append(e.http, ws.HTTPUpgrader{Protocol: sel})
	}
	e.initDebugDialer()
	return e
}

// flateParams: the parameters the server side negotiates with. Selector 0 is
// wsflate.DefaultParameters; the others carry window bits, whose textual values
// the library serves from a package-level table.
func (s *session) flateParams() wsflate.Parameters {
	k := s.tpl.HS.Sel
	if k == 0 {
		return wsflate.DefaultParameters
	}
	return wsflate.Parameters{ServerNoContextTakeover: true, ClientNoContextTakeover: true,
		ServerMaxWindowBits: wsflate.WindowBits(8 + (s.id+k)%8), ClientMaxWindowBits: wsflate.WindowBits(8 + (s.id+2*k)%8)}
}

func (s *session) sharedMode() bool {
	return s.tpl.HS.Mode == "shared-upgrader" || s.tpl.HS.Mode == "shared-http"
}

func (s *session) protos() []string {
	if s.sharedMode() {
		l := protoLists[s.tpl.HS.Sel]
		return []string{word(s.id, 100, s.tpl.HS.ProtoLens[0]), l[s.id%len(l)]}
	}
	var out []string
	for i, n := range s.tpl.HS.ProtoLens {
		out = append(out, word(s.id, 100+i, n))
	}
	return out
}

func (s *session) extName(i int) string { return "x-" + word(s.id, 110+i, s.tpl.HS.ExtLens[i]) }

func (s *session) extHeader(answer bool) string {
	h := s.tpl.HS
	var parts []string
	for i := range h.ExtLens {
		p := s.extName(i)
		if kl := h.ParamLens[i][0]; kl > 0 {
			vtag := 130
			if answer {
				vtag = 140
			}
			p += "; " + word(s.id, 120+i, kl) + "=" + word(s.id, vtag+i, h.ParamLens[i][1])
		}
		parts = append(parts, p)
	}
	return strings.Join(parts, ", ")
}

func (s *session) request() []byte {
	h := s.tpl.HS
	key := base64.StdEncoding.EncodeToString(content(s.id, 1, 16, false))
	var b strings.Builder
	b.WriteString("GET /" + word(s.id, 2, 5) + " HTTP/1.1\r\nHost: " + word(s.id, 3, 9) + ".example\r\nUpgrade: websocket\r\nConnection: Upgrade\r\n" +
		"Sec-WebSocket-Version: 13\r\nSec-WebSocket-Key: " + key + "\r\n")
	if h.HdrLen > 0 {
		b.WriteString("X-Fill: " + word(s.id, 4, h.HdrLen) + "\r\n")
	}
	b.WriteString("Sec-WebSocket-Protocol: " + strings.Join(s.protos(), ", ") + "\r\n")
	ext := s.extHeader(false)
	if s.tpl.flate() {
		d := "permessage-deflate; client_max_window_bits"
		if s.tpl.HS.Sel != 0 && !s.tpl.Client {
			d += "=15" // the server side asks for explicit window bits (see flateParams)
		}
		if ext != "" {
			ext = d + ", " + ext
		} else {
			ext = d
		}
	}
	if ext != "" {
		b.WriteString("Sec-WebSocket-Extensions: " + ext + "\r\n")
	}
	b.WriteString("\r\n")
	return []byte(b.String())
}

func (s *session) stepHandshake() {
	if s.tpl.Client {
		s.clientHandshake()
	} else {
		s.serverHandshake()
	}
}

func (s *session) serverHandshake() {
	h := s.tpl.HS
	req := s.request()
	key := base64.StdEncoding.EncodeToString(content(s.id, 1, 16, false))
	ps := s.protos()
	want := ps[h.Pick%len(ps)]
	rec := tx.NewRec()
	var hs ws.Handshake
	var err error
	switch h.Mode {
	case "shared-upgrader":
		want = s.protos()[1]
		hs, err = s.env.up[h.Sel].Upgrade(tx.RW{Reader: s.src(req, h.Chunks), Writer: s.dst(rec)})
	case "shared-http":
		want = s.protos()[1]
		r, perr := http.ReadRequest(bufio.NewReader(bytes.NewReader(req)))
		if perr != nil {
			s.expect(false, "harness: net/http does not parse the request: %v", perr)
			s.hsErr = perr
			return
		}
		_, _, hs, err = s.env.http[h.Sel].Upgrade(r, tx.NewHijackable(s.src(nil, nil), s.dst(rec), 0))
	case "upgrader", "upgrader-flate":
		u := ws.Upgrader{ReadBufferSize: h.BufSize, WriteBufferSize: h.BufSize}
		u.Protocol = func(p []byte) bool { return string(p) == want }
		u.Header = ws.HandshakeHeaderString("X-Srv: " + word(s.id, 5, 8) + "\r\n")
		if h.Mode == "upgrader" {
			u.Extension = func(httphead.Option) bool { return true }
		} else {
			s.ext = wsflate.Extension{Parameters: s.flateParams()}
			u.Negotiate = s.ext.Negotiate
		}
		hs, err = u.Upgrade(tx.RW{Reader: s.src(req, h.Chunks), Writer: s.dst(rec)})
	case "default":
		hs, err = ws.Upgrade(tx.RW{Reader: s.src(req, h.Chunks), Writer: s.dst(rec)})
		want = ""
	case "http", "http-flate", "http-default":
		r, perr := http.ReadRequest(bufio.NewReader(bytes.NewReader(req)))
		if perr != nil {
			s.expect(false, "harness: net/http does not parse the request: %v", perr)
			s.hsErr = perr
			return
		}
		hj := tx.NewHijackable(s.src(nil, nil), s.dst(rec), 0)
		switch h.Mode {
		case "http-default":
			_, _, hs, err = ws.UpgradeHTTP(r, hj)
			want = ""
		case "http":
			u := ws.HTTPUpgrader{Protocol: func(p string) bool { return p == want }, Extension: func(httphead.Option) bool { return true }}
			_, _, hs, err = u.Upgrade(r, hj)
		default:
			s.ext = wsflate.Extension{Parameters: s.flateParams()}
			u := ws.HTTPUpgrader{Protocol: func(p string) bool { return p == want }, Negotiate: s.ext.Negotiate}
			_, _, hs, err = u.Upgrade(r, hj)
		}
	}
	s.hs, s.hsErr = hs, err
	resp := string(rec.Bytes())
	head, rest := resp, ""
	if i := strings.Index(resp, "\r\n\r\n"); i >= 0 {
		head, rest = resp[:i+4], resp[i+4:]
	}
	acceptOK := strings.Contains(head, "Sec-WebSocket-Accept: "+acceptFor(key)+"\r\n")
	s.logf("err=%s hs={%s} response={%s} body=%d accept-ok=%t", renderErr(err), renderHS(hs), renderHead(head), len(rest), acceptOK)
	if s.tpl.flate() {
		p, ok := s.ext.Accepted()
		s.logf("deflate accepted=%t params=%+v", ok, p)
		s.expect(ok, "permessage-deflate was offered and not accepted")
	}
	s.expect(err == nil && acceptOK, "server handshake failed: %v (accept ok: %t)", err, acceptOK)
	s.expect(hs.Protocol == want, "server selected protocol %q, want %q", hs.Protocol, want)
}

var dialURLs = []string{"ws://example.com/x", "ws://example.com/chat?room=1"}

// debugDial: the handshake through the run's shared wsutil.DebugDialer. The
// session's transport calls the hook inside Dial, so in layer 1 another
// session's Dial through the same value can run nested right there.
func (s *session) debugDial() {
	key := fmt.Sprintf("%s-%d", word(s.id, 2, 5), s.id)
	host := fmt.Sprintf("d%d.test", s.id)
	pick := dbgProtocols[s.id%len(dbgProtocols)]
	var sent []byte
	s.peer = &lazyPeer{s: s, chunks: s.tpl.HS.Chunks, render: func(k string) []byte {
		sent = []byte("HTTP/1.1 101 Switching Protocols\r\nUpgrade: websocket\r\nConnection: Upgrade\r\nSec-WebSocket-Accept: " + acceptFor(k) +
			"\r\nSec-WebSocket-Protocol: " + pick + "\r\nX-Session: " + key + "\r\n\r\n")
		return sent
	}}
	own := &tx.MemConn{R: s.peer, W: s.peer}
	e := s.env
	e.mu.Lock()
	e.dbgConns[host+":80"] = own
	e.mu.Unlock()
	// Only the first 16 dials of a run share the DebugDialer value; later ones
	// dial through a private copy (same options and callbacks, same results).
	// This bounds the work when a defect makes overlapping dials wrap each
	// other's connections.
	dd := e.dbg
	if atomic.AddInt32(&e.dbgLeft, -1) < 0 {
		cp := *e.dbg
		dd = &cp
	}
	conn, br, hs, err := dd.Dial(context.Background(), "ws://"+host+"/"+key)
	e.mu.Lock()
	delete(e.dbgConns, host+":80")
	reqs, resps := e.dbgReq[key], e.dbgResp[key]
	delete(e.dbgReq, key)
	delete(e.dbgResp, key)
	e.mu.Unlock()
	s.hs, s.hsErr = hs, err
	if br != nil {
		ws.PutReader(br)
	}
	ownConn := conn == net.Conn(own)
	reqOK := len(reqs) == 1 && bytes.Equal(reqs[0], s.peer.written.Bytes())
	respOK := len(resps) == 1 && bytes.Equal(resps[0], sent)
	s.logf("err=%s hs={%s} request={%s} own-conn=%t on-request=%d own-request=%t on-response=%d own-response=%t br-nil=%t", renderErr(err), renderHS(hs),
		renderHead(s.peer.written.String()), ownConn, len(reqs), reqOK, len(resps), respOK, br == nil)
	s.expect(err == nil && hs.Protocol == pick, "handshake through the shared DebugDialer failed: %v, protocol %q want %q", err, hs.Protocol, pick)
	s.expect(ownConn, "DebugDialer.Dial returned a connection that is not the one NetDial gave to this session")
	s.expect(reqOK && respOK, "OnRequest/OnResponse did not report exactly this session's request and response (requests %d ok=%t, responses %d ok=%t)", len(reqs), reqOK, len(resps), respOK)
}

func (s *session) clientHandshake() {
	h := s.tpl.HS
	if h.Mode == "debug-dialer" {
		s.debugDial()
		return
	}
	protos := s.protos()
	pick := protos[h.Pick]
	answer := s.extHeader(true)
	var d ws.Dialer
	switch h.Mode {
	case "dialer", "dialer-flate":
		d = ws.Dialer{ReadBufferSize: h.BufSize, WriteBufferSize: h.BufSize, Protocols: protos}
		for i := range h.ExtLens {
			opt := httphead.Option{Name: []byte(s.extName(i))}
			if kl := h.ParamLens[i][0]; kl > 0 {
				opt.Parameters.Set([]byte(word(s.id, 120+i, kl)), []byte(word(s.id, 130+i, h.ParamLens[i][1])))
			}
			d.Extensions = append(d.Extensions, opt)
		}
		if h.Mode == "dialer-flate" {
			d.Extensions = append([]httphead.Option{wsflate.DefaultParameters.Option()}, d.Extensions...)
			fl := "permessage-deflate; client_no_context_takeover; server_no_context_takeover"
			if answer != "" {
				answer = fl + ", " + answer
			} else {
				answer = fl
			}
		}
		d.Header = ws.HandshakeHeaderString("X-Cli: " + word(s.id, 6, 8) + "\r\n")
	case "shared-dialer":
		// one Dialer value (Protocols, Extensions) used by all sessions; the
		// server's answer carries parameters that differ from the offer and per session
		d = sharedUpgradeDialer
		pick = d.Protocols[s.id%len(d.Protocols)]
		answer = fmt.Sprintf("permessage-deflate; client_max_window_bits=%d, x-ext; k=v%d", 8+s.id%8, s.id)
	case "default":
		pick, answer = "", ""
	}
	var trailing []byte
	if h.Trailing >= 0 {
		trailing = ref.Frame{H: ref.Header{Fin: true, Op: ref.OpBinary}, Payload: content(s.id, 7, h.Trailing, false)}.Encode()
	}
	s.peer = &lazyPeer{s: s, chunks: h.Chunks, render: func(key string) []byte {
		var b strings.Builder
		b.WriteString("HTTP/1.1 101 Switching Protocols\r\nUpgrade: websocket\r\nConnection: Upgrade\r\nSec-WebSocket-Accept: " + acceptFor(key) + "\r\n")
		if pick != "" {
			b.WriteString("Sec-WebSocket-Protocol: " + pick + "\r\n")
		}
		if answer != "" {
			b.WriteString("Sec-WebSocket-Extensions: " + answer + "\r\n")
		}
		if h.HdrLen > 0 {
			b.WriteString("X-Fill: " + word(s.id, 4, h.HdrLen) + "\r\n")
		}
		b.WriteString("\r\n")
		return append([]byte(b.String()), trailing...)
	}}
	u, _ := url.Parse(dialURLs[s.id%len(dialURLs)])
	var br *bufio.Reader
	var hs ws.Handshake
	var err error
	if h.Mode == "default" {
		br, hs, err = ws.DefaultDialer.Upgrade(s.peer, u)
	} else {
		br, hs, err = d.Upgrade(s.peer, u)
	}
	s.br, s.hs, s.hsErr = br, hs, err
	buffered := -1
	if br != nil {
		buffered = br.Buffered()
	}
	req := s.peer.written.String()
	s.logf("err=%s hs={%s} request={%s} buffered=%d", renderErr(err), renderHS(hs), renderHead(req), buffered)
	s.expect(err == nil, "client handshake failed: %v", err)
	if h.Mode == "shared-dialer" {
		s.expect(strings.Contains(req, "\r\nSec-WebSocket-Extensions: "+sharedOffer+"\r\n"), "the request does not carry the offer configured in the shared Dialer (%s): %s", sharedOffer, renderHead(req))
		s.expect(renderHS(hs) == "proto="+pick+" | permessage-deflate;client_max_window_bits="+fmt.Sprint(8+s.id%8)+" | x-ext;k=v"+fmt.Sprint(s.id), "client handshake result %s does not reflect the server's answer %q", renderHS(hs), answer)
	}
	s.expect(hs.Protocol == pick, "client reports protocol %q, the server selected %q", hs.Protocol, pick)
}

// conn returns where the client reads the bytes that follow the response.
func (s *session) conn() io.Reader {
	if s.br != nil {
		return s.br
	}
	return s.peer
}

func (s *session) stepBrRead() {
	if s.hsErr != nil {
		s.logf("skipped")
		return
	}
	rec := tx.NewRec()
	p, opc, err := wsutil.ReadServerData(tx.RW{Reader: s.conn(), Writer: s.dst(rec)})
	s.logf("via-br=%t err=%s op=%x payload=%s wrote=%s", s.br != nil, renderErr(err), opc, digest(p), renderWire(rec.Bytes()))
	s.expect(err == nil && bytes.Equal(p, content(s.id, 7, s.tpl.HS.Trailing, false)), "the frame sent right behind the response was not read back intact (err=%v, %d bytes)", err, len(p))
}

func (s *session) stepBrPut() {
	if s.br != nil {
		ws.PutReader(s.br)
		s.br = nil
		s.logf("returned")
		return
	}
	s.logf("nothing to return")
}

// --- messages ---------------------------------------------------------------

func (s *session) opcode(sp stepSpec) (ws.OpCode, byte) {
	if sp.Text {
		return ws.OpText, ref.OpText
	}
	return ws.OpBinary, ref.OpBinary
}

func (s *session) payload(o op, k int) []byte {
	return content(s.id, 1000+o.idx*16+k, o.spec.Size, o.spec.Text)
}

type keptBuf struct {
	p     []byte
	sum   string
	where string
}

// ownedPayload is the payload in a buffer the session keeps after the write
// call: with Cap its capacity is exactly a pool size class, the kind of buffer
// an application gets from make([]byte, n, 4096). The library may read it
// during the call; it stays the caller's afterwards.
func (s *session) ownedPayload(o op) []byte {
	p := s.payload(o, 0)
	if c := sizeClass(len(p)); o.spec.Cap && c != 0 {
		q := make([]byte, len(p), c)
		copy(q, p)
		p = q
	}
	s.kept = append(s.kept, keptBuf{p, digest(p), fmt.Sprintf("payload of step %d (%s, len %d, cap %d)", s.pc, o.name, len(p), cap(p))})
	return p
}

// keepResult: a result the library handed to the session; it is the session's
// from then on and is re-checked after every later step.
func (s *session) keepResult(p []byte, what string) {
	if len(p) == 0 {
		return
	}
	s.kept = append(s.kept, keptBuf{p, digest(p), fmt.Sprintf("%s at step %d (%d bytes)", what, s.pc, len(p))})
}

// checkKept verifies that the buffers the session owns still hold its bytes.
func (s *session) checkKept() {
	for i := range s.kept {
		k := &s.kept[i]
		if now := digest(k.p); now != k.sum {
			s.tr = append(s.tr, fmt.Sprintf("!! the session's own buffer, %s, changed after the call returned: was %s, at step %d it is %s", k.where, k.sum, s.pc, now))
			k.sum = now
		}
	}
}

// incoming builds what the peer sends for a read step: an optional ping, then
// one data message in Frag fragments with the ping repeated between fragments.
func (s *session) incoming(o op) (wire []byte, payload, ping []byte) {
	sp := o.spec
	_, rop := s.opcode(sp)
	masked := !s.tpl.Client
	payload = s.payload(o, 0)
	var fs []ref.Frame
	mk := func(op byte, fin bool, p []byte, k int) ref.Frame {
		return ref.Frame{H: ref.Header{Fin: fin, Op: op, Masked: masked, Mask: peerMask(s.id, 2000+o.idx*16+k)}, Payload: p}
	}
	if sp.Ctl >= 0 {
		ping = content(s.id, 1000+o.idx*16+1, sp.Ctl, false)
		fs = append(fs, mk(ref.OpPing, true, ping, 0))
	}
	n := sp.Frag
	if n < 1 {
		n = 1
	}
	for i := 0; i < n; i++ {
		lo, hi := len(payload)*i/n, len(payload)*(i+1)/n
		fop := rop
		if i > 0 {
			fop = ref.OpCont
		}
		fs = append(fs, mk(fop, i == n-1, payload[lo:hi], 1+i))
		if i < n-1 && sp.Ctl >= 0 {
			fs = append(fs, mk(ref.OpPing, true, ping, 8+i))
		}
	}
	return ref.EncodeAll(fs), payload, ping
}

func (s *session) stepWriteMsg(o op) {
	wop, rop := s.opcode(o.spec)
	p := s.ownedPayload(o)
	rec := tx.NewRec()
	var err error
	if s.tpl.Client {
		err = wsutil.WriteClientMessage(s.dst(rec), wop, p)
	} else {
		err = wsutil.WriteServerMessage(s.dst(rec), wop, p)
	}
	s.logf("err=%s wrote=%s", renderErr(err), renderWire(rec.Bytes()))
	got, ok := wirePayload(rec.Bytes(), rop, s.tpl.Client)
	s.expect(err == nil && ok && bytes.Equal(got, p), "WriteMessage: the wire does not carry one message with the %d-byte payload", len(p))
}

func (s *session) stepWriterGet(o op) {
	wop, _ := s.opcode(o.spec)
	s.wrec = tx.NewRec()
	s.wsent = nil
	s.w = wsutil.GetWriter(s.dst(s.wrec), s.state, wop, o.spec.WSize)
	// Size() is not recorded: GetWriter documents "at least n"; a recycled
	// Writer may be a few bytes larger than a new one, which moves fragment
	// boundaries. The writer steps therefore record the message, not its split.
	s.logf("buffered=%d size>=%t", s.w.Buffered(), s.w.Size() >= o.spec.WSize-14)
}

func (s *session) stepWriterWrite(o op) {
	p := s.payload(o, 0)
	n := o.spec.Frag
	lo, hi := len(p)*o.part/n, len(p)*(o.part+1)/n
	k, err := s.w.Write(p[lo:hi])
	s.wsent = append(s.wsent, p[lo:hi]...)
	s.logf("n=%d err=%s", k, renderErr(err))
}

func (s *session) stepWriterFlush(o op) {
	err := s.w.Flush()
	s.logf("err=%s wrote=%s", renderErr(err), renderMessage(s.wrec.Bytes()))
	_, rop := s.opcode(o.spec)
	got, ok := wirePayload(s.wrec.Bytes(), rop, s.tpl.Client)
	s.expect(err == nil && ok && bytes.Equal(got, s.wsent), "Writer: the wire does not carry one message with the %d bytes written", len(s.wsent))
}

func (s *session) stepWriterPut(o op) {
	wsutil.PutWriter(s.w)
	s.w = nil
	s.logf("returned")
}

// stepWriterFail: a connection that breaks. The session builds a Writer whose
// Size() is a pool class (so that the shared pool keeps it), writes until the
// destination error is recorded and returns the Writer with PutWriter, as the
// documentation invites to. Whoever gets it from GetWriter next must be able
// to use it as a new one.
func (s *session) stepWriterFail(o op) {
	wop, _ := s.opcode(o.spec)
	size := sizeClass(o.spec.WSize)
	rec := tx.NewRec()
	rec.FailAt = 0
	w := wsutil.NewWriterSize(s.dst(rec), s.state, wop, size)
	p := content(s.id, 1000+o.idx*16, size+10, o.spec.Text)
	n, err := w.Write(p)
	ferr := w.Flush()
	s.logf("size=%d n=%d err=%s flush=%s accepted=%d", w.Size(), n, renderErr(err), renderErr(ferr), rec.Len())
	s.expect(err != nil && ferr != nil, "a Writer over a failing destination reports no error (Write: %v, Flush: %v)", err, ferr)
	wsutil.PutWriter(w)
}

// --- a Writer over a buffer the session owns ---------------------------------
//
// The session gives NewWriterBuffer a slice of its own whose capacity is a
// pool size class, disables flushing and writes more than fits, so the Writer
// outgrows the slice. The slice stays the session's: it is filled with a
// pattern and watched (checkKept) while other sessions run, then used again
// for the next message, with other sessions' steps between Write and Flush.

func (s *session) keepPattern(tag int, where string) {
	copy(s.ownBuf, content(s.id, tag, len(s.ownBuf), false))
	s.kept = append(s.kept, keptBuf{s.ownBuf, digest(s.ownBuf), where})
}

func (s *session) unkeepOwnBuf() {
	for i := range s.kept {
		if len(s.kept[i].p) > 0 && len(s.ownBuf) > 0 && &s.kept[i].p[0] == &s.ownBuf[0] {
			s.kept = append(s.kept[:i:i], s.kept[i+1:]...)
			return
		}
	}
}

func (s *session) stepOwnbufGrow(o op) {
	wop, rop := s.opcode(o.spec)
	class := sizeClass(o.spec.WSize)
	s.ownBuf = make([]byte, class)
	rec := tx.NewRec()
	w := wsutil.NewWriterBuffer(s.dst(rec), s.state, wop, s.ownBuf)
	w.DisableFlush()
	p := content(s.id, 1000+o.idx*16, class+class/2+o.spec.Size%64, o.spec.Text)
	half := len(p) / 2
	n1, err1 := w.Write(p[:half])
	n2, err2 := w.Write(p[half:])
	err := w.Flush()
	s.logf("class=%d n=%d+%d err=%s,%s flush=%s size-after=%t wrote=%s", class, n1, n2, renderErr(err1), renderErr(err2), renderErr(err), w.Size() >= len(p), renderWire(rec.Bytes()))
	got, ok := wirePayload(rec.Bytes(), rop, s.tpl.Client)
	s.expect(err == nil && ok && bytes.Equal(got, p), "Writer with DisableFlush over an own %d-byte buffer: the wire does not carry the %d-byte message", class, len(p))
	// the Writer has outgrown the slice; it is the session's again
	s.keepPattern(1001+o.idx*16, fmt.Sprintf("the %d-byte buffer given to NewWriterBuffer at step %d (outgrown by the Writer, refilled by the session)", class, s.pc))
}

func (s *session) stepOwnbufReuseWrite(o op) {
	wop, _ := s.opcode(o.spec)
	s.unkeepOwnBuf()
	s.ownRec = tx.NewRec()
	s.ownW = wsutil.NewWriterBuffer(s.dst(s.ownRec), s.state, wop, s.ownBuf)
	s.ownMsg = content(s.id, 1002+o.idx*16, len(s.ownBuf)/2, o.spec.Text)
	n, err := s.ownW.Write(s.ownMsg)
	s.logf("n=%d err=%s buffered=%d sent-so-far=%d", n, renderErr(err), s.ownW.Buffered(), s.ownRec.Len())
}

func (s *session) stepOwnbufReuseFlush(o op) {
	_, rop := s.opcode(o.spec)
	err := s.ownW.Flush()
	s.logf("err=%s wrote=%s", renderErr(err), renderWire(s.ownRec.Bytes()))
	got, ok := wirePayload(s.ownRec.Bytes(), rop, s.tpl.Client)
	s.expect(err == nil && ok && bytes.Equal(got, s.ownMsg), "Writer over the session's own buffer: the wire does not carry the %d bytes written before other sessions ran", len(s.ownMsg))
	s.ownW = nil
	s.keepPattern(1003+o.idx*16, fmt.Sprintf("the %d-byte buffer given to NewWriterBuffer (after its second message, refilled by the session)", len(s.ownBuf)))
}

// --- real dials over loopback TCP (NetDial == nil) --------------------------------
//
// These are the only steps that leave the in-memory world: the Dialer's
// default path (its package-level net.Dialer) is only reachable with a real
// connect. A loopback listener serves ws.Upgrade on every connection. One kind
// of session dials with Timeout = 1ns (its own outcome depends on real time and
// is NOT recorded); the others dial with ws.Dial / ws.DefaultDialer / a Dialer
// with a generous Timeout and no deadline that could expire, so they connect
// however loaded the machine is — unless another session's Timeout leaked
// into the state all dialers share.

var (
	tcpOnce   sync.Once
	tcpAddr   string
	tcpErr    error
	tcpMu     sync.Mutex
	tcpIdle   = sync.NewCond(&tcpMu)
	tcpActive int // connections being served

	tcpDials    int64 // loopback dials of this process so far
	tcpBudgetOK bool  // decided at the start of a case: dial for real in this case
)

const tcpDialCap = 6000 // every dial costs an ephemeral port for a while

// tcpCaseStart is called once at the start of every case.
func tcpCaseStart() { tcpBudgetOK = atomic.LoadInt64(&tcpDials) < tcpDialCap }

func tcpListen() (string, error) {
	tcpOnce.Do(func() {
		ln, err := net.Listen("tcp", "127.0.0.1:0")
		if err != nil {
			tcpErr = err
			return
		}
		tcpAddr = ln.Addr().String()
		go func() {
			for {
				c, err := ln.Accept()
				if err != nil {
					return
				}
				tcpMu.Lock()
				tcpActive++
				tcpMu.Unlock()
				go func() {
					defer func() {
						tcpMu.Lock()
						tcpActive--
						tcpIdle.Broadcast()
						tcpMu.Unlock()
					}()
					ws.Upgrade(c)
					// wait for the client to hang up, so that the client side closes first
					io.Copy(io.Discard, c)
					c.Close()
				}()
			}
		}()
	})
	return tcpAddr, tcpErr
}

// tcpQuiesce waits until every connection served so far has ended (each client
// closes its conn before its step returns).
func tcpQuiesce() {
	tcpMu.Lock()
	for tcpActive > 0 {
		tcpIdle.Wait()
	}
	tcpMu.Unlock()
}

func (s *session) stepTCPDial(o op) {
	if !tcpBudgetOK {
		s.logf("skipped: the loopback dial budget of this process is used up")
		return
	}
	atomic.AddInt64(&tcpDials, 1)
	addr, lerr := tcpListen()
	if lerr != nil {
		s.logf("no loopback listener in this environment")
		return
	}
	url := "ws://" + addr + "/" + word(s.id, 1000+o.idx*16, 5)
	switch o.spec.Which % 4 {
	case 0:
		// a dialer with a connect timeout that cannot be met; what it returns is a matter of real time
		d := ws.Dialer{Timeout: time.Nanosecond}
		if c, br, _, err := d.Dial(context.Background(), url); err == nil {
			if br != nil {
				ws.PutReader(br)
			}
			c.Close()
		}
		s.logf("Dialer{Timeout: 1ns}.Dial returned (outcome not recorded)")
		return
	}
	var c net.Conn
	var br *bufio.Reader
	var hs ws.Handshake
	var err error
	how := ""
	switch o.spec.Which % 4 {
	case 1:
		how = "ws.Dial"
		c, br, hs, err = ws.Dial(context.Background(), url)
	case 2:
		how = "ws.DefaultDialer.Dial"
		c, br, hs, err = ws.DefaultDialer.Dial(context.Background(), url)
	default:
		how = "Dialer{Timeout: 1h}.Dial"
		c, br, hs, err = ws.Dialer{Timeout: time.Hour}.Dial(context.Background(), url)
	}
	s.logf("%s err=%s hs={%s} br-nil=%t", how, renderErr(err), renderHS(hs), br == nil)
	s.expect(err == nil, "%s to the loopback listener failed: %v", how, err)
	if br != nil {
		ws.PutReader(br)
	}
	if c != nil {
		c.Close()
	}
}

// --- writers with an extension list all sessions share ---------------------------

// sharedSendExts is an application-wide list of stateless send extensions that
// every session attaches to its writers with SetExtensions(sharedSendExts...).
// The list belongs to the application; the library only reads it.
var sharedSendExts = []wsutil.SendExtension{
	wsutil.SendExtensionFunc(func(h ws.Header) (ws.Header, error) { h.Rsv |= 0x2; return h, nil }), // RSV2
	wsutil.SendExtensionFunc(func(h ws.Header) (ws.Header, error) { h.Rsv |= 0x1; return h, nil }), // RSV3
}

func renderSharedExts() string {
	var parts []string
	for _, x := range sharedSendExts {
		if x == nil {
			parts = append(parts, "nil")
		} else {
			parts = append(parts, fmt.Sprintf("%T@%x", x, reflect.ValueOf(x).Pointer()))
		}
	}
	return fmt.Sprintf("len=%d [%s]", len(sharedSendExts), strings.Join(parts, " "))
}

func (s *session) stepExtwGet(o op) {
	wop, _ := s.opcode(o.spec)
	s.extRec = tx.NewRec()
	how := "GetWriter"
	if o.spec.Which%2 == 0 {
		s.extW = wsutil.GetWriter(s.dst(s.extRec), s.state|ws.StateExtended, wop, o.spec.WSize)
	} else {
		how = "NewWriterSize"
		s.extW = wsutil.NewWriterSize(s.dst(s.extRec), s.state|ws.StateExtended, wop, o.spec.WSize)
	}
	s.extW.SetExtensions(sharedSendExts...)
	s.logf("%s extensions=%d", how, len(sharedSendExts))
}

func (s *session) stepExtwWrite(o op) {
	n, err := s.extW.Write(s.payload(o, 0))
	s.logf("n=%d err=%s", n, renderErr(err))
}

func (s *session) stepExtwFlush(o op) {
	_, rop := s.opcode(o.spec)
	err := s.extW.Flush()
	fs, rest, _ := ref.ParseFrames(s.extRec.Bytes())
	ok := len(rest) == 0 && len(fs) > 0
	var got []byte
	for i, f := range fs {
		want := rop
		if i > 0 {
			want = ref.OpCont
		}
		if f.H.Op != want || f.H.Rsv != 3 || f.H.Fin != (i == len(fs)-1) || f.H.Masked != s.tpl.Client {
			ok = false
		}
		got = append(got, f.Payload...)
	}
	// fragment boundaries are not recorded (a recycled Writer may be a few bytes larger)
	s.logf("err=%s one-message-with-rsv2+3=%t payload=%s", renderErr(err), ok, digest(got))
	s.expect(err == nil && ok && bytes.Equal(got, s.payload(o, 0)), "Writer with the shared extensions: the wire does not carry one %d-byte message with RSV2+RSV3 on every frame", o.spec.Size)
}

func (s *session) stepExtwPut(o op) {
	how := "PutWriter"
	if o.spec.Which%4 < 2 {
		wsutil.PutWriter(s.extW)
	} else {
		how = "Reset"
		s.extW.Reset(s.dst(tx.NewRec()), s.state, ws.OpBinary)
	}
	s.extW = nil
	s.logf("%s shared-extensions=%s", how, renderSharedExts())
}

// --- CipherWriter / CipherReader ---------------------------------------------

func (s *session) cipherParts(o op) (p []byte, m1, m2 [4]byte, half int) {
	p = s.payload(o, 0)
	return p, peerMask(s.id, 2000+o.idx*16), peerMask(s.id, 2001+o.idx*16), len(p) / 2
}

// cipher-writer: the first half of a payload in one step, the rest (the mask
// offset carries over) in the next; then Reset to a new destination and mask.
func (s *session) stepCipherWriter1(o op) {
	p, m1, _, half := s.cipherParts(o)
	s.cwRec = tx.NewRec()
	s.cw = wsutil.NewCipherWriter(s.dst(s.cwRec), m1)
	n, err := s.cw.Write(p[:half])
	s.logf("n=%d err=%s wire=%s", n, renderErr(err), digest(s.cwRec.Bytes()))
}

func (s *session) stepCipherWriter2(o op) {
	p, m1, m2, half := s.cipherParts(o)
	n, err := s.cw.Write(p[half:])
	first := s.cwRec.Bytes()
	rec2 := tx.NewRec()
	s.cw.Reset(s.dst(rec2), m2)
	tail := p[len(p)-len(p)/3:]
	n2, err2 := s.cw.Write(tail)
	s.logf("n=%d err=%s wire=%s after-reset n=%d err=%s wire=%s", n, renderErr(err), digest(first), n2, renderErr(err2), digest(rec2.Bytes()))
	s.expect(err == nil && err2 == nil && bytes.Equal(first, ref.Mask(p, m1, 0)) && bytes.Equal(rec2.Bytes(), ref.Mask(tail, m2, 0)) && bytes.Equal(p, s.payload(o, 0)),
		"CipherWriter: the destination did not receive the %d-byte payload XOR the key (or the caller's slice changed)", len(p))
	s.cw = nil
}

// cipher-reader: a masked payload read back in two steps, then Reset.
func (s *session) stepCipherReader1(o op) {
	p, m1, _, half := s.cipherParts(o)
	s.cr = wsutil.NewCipherReader(s.src(ref.Mask(p, m1, 0), o.spec.Chunks), m1)
	s.crGot = make([]byte, half)
	n, err := io.ReadFull(s.cr, s.crGot)
	s.logf("n=%d err=%s got=%s", n, renderErr(err), digest(s.crGot))
}

func (s *session) stepCipherReader2(o op) {
	p, _, m2, _ := s.cipherParts(o)
	rest, err := io.ReadAll(s.cr)
	got := append(append([]byte(nil), s.crGot...), rest...)
	tail := p[len(p)/2:]
	s.cr.Reset(s.src(ref.Mask(tail, m2, 0), o.spec.Chunks), m2)
	got2, err2 := io.ReadAll(s.cr)
	s.logf("err=%s got=%s after-reset err=%s got=%s", renderErr(err), digest(got), renderErr(err2), digest(got2))
	s.expect(err == nil && err2 == nil && bytes.Equal(got, p) && bytes.Equal(got2, tail), "CipherReader did not recover the %d-byte payload", len(p))
	s.cr = nil
}

// --- Writer.ReadFrom, NewWriter (default buffer), ResetOp ----------------------

func splitMessages(b []byte) (msgs [][]ref.Frame, ok bool) {
	fs, rest, _ := ref.ParseFrames(b)
	var cur []ref.Frame
	for _, f := range fs {
		cur = append(cur, f)
		if f.H.Fin {
			msgs = append(msgs, cur)
			cur = nil
		}
	}
	return msgs, len(rest) == 0 && len(cur) == 0
}

func messageIs(fs []ref.Frame, op byte, masked bool, p []byte) bool {
	var got []byte
	for i, f := range fs {
		want := op
		if i > 0 {
			want = ref.OpCont
		}
		if f.H.Op != want || f.H.Masked != masked || f.H.Rsv != 0 {
			return false
		}
		got = append(got, f.Payload...)
	}
	return bytes.Equal(got, p)
}

func (s *session) stepReadFromCopy(o op) {
	wop, _ := s.opcode(o.spec)
	p := s.payload(o, 0)
	s.rfRec = tx.NewRec()
	s.rfW = wsutil.NewWriter(s.dst(s.rfRec), s.state, wop)
	n, err := io.Copy(s.rfW, s.src(p, o.spec.Chunks)) // Writer.ReadFrom
	s.logf("n=%d err=%s buffered=%d sent-so-far=%s", n, renderErr(err), s.rfW.Buffered(), renderWire(s.rfRec.Bytes()))
}

func (s *session) stepReadFromFlush(o op) {
	_, rop := s.opcode(o.spec)
	p := s.payload(o, 0)
	err := s.rfW.Flush()
	// second message on the same Writer: buffered bytes are dropped by ResetOp, the opcode changes
	wop2, rop2 := ws.OpBinary, byte(ref.OpBinary)
	if !o.spec.Text {
		wop2, rop2 = ws.OpText, ref.OpText
	}
	_, werr := s.rfW.Write([]byte("dropped by ResetOp"))
	s.rfW.ResetOp(wop2)
	p2 := content(s.id, 1000+o.idx*16+2, 1+o.spec.Size%300, true)
	_, werr2 := s.rfW.Write(p2)
	err2 := s.rfW.Flush()
	s.logf("flush=%s write=%s,%s flush2=%s wrote=%s", renderErr(err), renderErr(werr), renderErr(werr2), renderErr(err2), renderWire(s.rfRec.Bytes()))
	msgs, ok := splitMessages(s.rfRec.Bytes())
	s.expect(err == nil && err2 == nil && ok && len(msgs) == 2 && messageIs(msgs[0], rop, s.tpl.Client, p) && messageIs(msgs[1], rop2, s.tpl.Client, p2),
		"io.Copy into a Writer + Flush, then ResetOp + Write + Flush: the wire does not carry the %d-byte and the %d-byte message", len(p), len(p2))
	s.rfW = nil
}

// --- ControlWriter -----------------------------------------------------------------

func (s *session) stepControlWriter1(o op) {
	p := content(s.id, 1000+o.idx*16, o.spec.Size, false)
	cop := ws.OpPing
	if o.spec.Which%2 == 1 {
		cop = ws.OpPong
	}
	s.ctlRec = tx.NewRec()
	s.ctlW = wsutil.NewControlWriter(s.dst(s.ctlRec), s.state, cop)
	n1, err1 := s.ctlW.Write(p[:len(p)/2])
	n2, err2 := s.ctlW.Write(p[len(p)/2:])
	s.logf("n=%d+%d err=%s,%s sent-so-far=%d", n1, n2, renderErr(err1), renderErr(err2), s.ctlRec.Len())
}

func (s *session) stepControlWriter2(o op) {
	p := content(s.id, 1000+o.idx*16, o.spec.Size, false)
	rop := byte(ref.OpPing)
	if o.spec.Which%2 == 1 {
		rop = ref.OpPong
	}
	err := s.ctlW.Flush()
	s.logf("err=%s wrote=%s", renderErr(err), renderWire(s.ctlRec.Bytes()))
	fs, rest, _ := ref.ParseFrames(s.ctlRec.Bytes())
	s.expect(err == nil && len(rest) == 0 && len(fs) == 1 && fs[0].H.Fin && fs[0].H.Op == rop && fs[0].H.Masked == s.tpl.Client && bytes.Equal(fs[0].Payload, p),
		"ControlWriter: the wire does not carry one control frame with the %d-byte payload", len(p))
	s.ctlW = nil
}

// --- copying mask helpers ------------------------------------------------------------

func (s *session) stepMaskHelpers(o op) {
	wop, rop := s.opcode(o.spec)
	p := s.ownedPayload(o)
	key := peerMask(s.id, 2000+o.idx*16)
	rec := tx.NewRec()
	err := ws.WriteFrame(s.dst(rec), ws.MaskFrame(ws.NewFrame(wop, true, p)))
	var err2 error
	if err == nil {
		err2 = ws.WriteFrame(s.dst(rec), ws.MaskFrameWith(ws.NewFrame(wop, true, p), key))
	}
	// read both back and unmask into copies
	rd := s.src(rec.Bytes(), o.spec.Chunks)
	var lines []string
	good := err == nil && err2 == nil
	for i := 0; i < 2 && good; i++ {
		f, rerr := ws.ReadFrame(rd)
		if rerr != nil {
			lines = append(lines, renderErr(rerr))
			good = false
			break
		}
		masked := append([]byte(nil), f.Payload...)
		u := ws.UnmaskFrame(f)
		lines = append(lines, fmt.Sprintf("{op=%x masked-before=%t masked-after=%t %s}", u.Header.OpCode, f.Header.Masked, u.Header.Masked, digest(u.Payload)))
		if !bytes.Equal(u.Payload, p) || !bytes.Equal(f.Payload, masked) || byte(u.Header.OpCode) != rop || (i == 1 && f.Header.Mask != key) {
			good = false
		}
	}
	s.logf("err=%s,%s read-back=%v", renderErr(err), renderErr(err2), lines)
	s.expect(good, "MaskFrame/MaskFrameWith + WriteFrame, ReadFrame + UnmaskFrame do not round-trip the %d-byte payload", len(p))
}

// --- handshakes rejected with an error value all sessions share -------------------

// sharedRejections are application-wide rejection errors (the natural way to
// use ws.RejectConnectionError: var errForbidden = ws.RejectConnectionError(...)),
// returned by the callbacks of every session's Upgrader. Read-only for everybody.
var sharedRejections = []error{
	ws.RejectConnectionError(ws.RejectionReason("nope")),
	ws.RejectConnectionError(),
	ws.RejectConnectionError(ws.RejectionStatus(403), ws.RejectionReason("forbidden")),
	ws.RejectConnectionError(ws.RejectionReason("teapot"), ws.RejectionHeader(ws.HandshakeHeaderString("X-Why: shared\r\n"))),
	ws.RejectConnectionError(ws.RejectionStatus(429)),
}

func renderRejection(e error) string {
	r := e.(*ws.ConnectionRejectedError)
	return fmt.Sprintf("{status=%d error=%q}", r.StatusCode(), r.Error())
}

func renderSharedRejections() string {
	var parts []string
	for _, e := range sharedRejections {
		parts = append(parts, renderRejection(e))
	}
	return strings.Join(parts, " ")
}

// stepReject: an upgrade that a callback of the Upgrader rejects with one of the shared errors.
// wideStatus: a rejection status drawn per session from 400..599 and a few odd ones.
func wideStatus(k int) int {
	odd := []int{308, 600, 999, 451, 418}
	k %= 200 + len(odd)
	if k < 200 {
		return 400 + k
	}
	return odd[k-200]
}

// rejectVia runs an upgrade of the session's request that a callback rejects
// with rej, through Upgrader (four callbacks) or HTTPUpgrader (Negotiate).
func (s *session) rejectVia(o op, sel int, rej error) (via string, hs ws.Handshake, err error, resp string) {
	rec := tx.NewRec()
	// an application header, so that OnHeader has something to be called for, and an
	// extension offer, so that HTTPUpgrader's Negotiate is called
	req := append(bytes.TrimSuffix(s.request(), []byte("\r\n")), "X-Session: "+word(s.id, 1000+o.idx*16, 6)+"\r\nSec-WebSocket-Extensions: x-reject\r\n\r\n"...)
	if sel%5 == 4 {
		via = "HTTPUpgrader.Negotiate"
		r, perr := http.ReadRequest(bufio.NewReader(bytes.NewReader(req)))
		if perr != nil {
			return via, hs, perr, ""
		}
		u := ws.HTTPUpgrader{Negotiate: func(httphead.Option) (httphead.Option, error) { return httphead.Option{}, rej }}
		_, _, hs, err = u.Upgrade(r, tx.NewHijackable(s.src(nil, nil), s.dst(rec), 0))
		return via, hs, err, string(rec.Bytes())
	}
	u := ws.Upgrader{ReadBufferSize: s.tpl.HS.BufSize, WriteBufferSize: s.tpl.HS.BufSize}
	switch sel % 5 {
	case 0:
		via = "OnRequest"
		u.OnRequest = func([]byte) error { return rej }
	case 1:
		via = "OnHost"
		u.OnHost = func([]byte) error { return rej }
	case 2:
		via = "OnHeader"
		u.OnHeader = func(k, v []byte) error { return rej }
	default:
		via = "OnBeforeUpgrade"
		u.OnBeforeUpgrade = func() (ws.HandshakeHeader, error) { return nil, rej }
	}
	hs, err = u.Upgrade(tx.RW{Reader: s.src(req, o.spec.Chunks), Writer: s.dst(rec)})
	return via, hs, err, string(rec.Bytes())
}

func splitResponse(resp string) (head, body string) {
	if i := strings.Index(resp, "\r\n\r\n"); i >= 0 {
		return resp[:i+4], resp[i+4:]
	}
	return resp, ""
}

// stepReject: an upgrade that a callback rejects, with one of the shared error
// values or with an error of the session's own carrying a status from a wide range.
func (s *session) stepReject(o op) {
	k := o.spec.Which % (len(sharedRejections) + 3)
	sel := o.spec.Which/(len(sharedRejections)+3) + s.id
	if k >= len(sharedRejections) {
		code := wideStatus(s.id*7 + o.spec.Which + o.idx)
		own := ws.RejectConnectionError(ws.RejectionStatus(code), ws.RejectionReason("session "+word(s.id, 1001+o.idx*16, 5)+" says no"))
		via, hs, err, resp := s.rejectVia(o, sel, own)
		head, body := splitResponse(resp)
		s.logf("%s own rejection status=%d same-error=%t hs={%s} response={%s} body=%s", via, code, err == own, renderHS(hs), renderHead(head), digest([]byte(body)))
		s.expect(err == own && strings.HasPrefix(head, fmt.Sprintf("HTTP/1.1 %d %s\r\n", code, http.StatusText(code))), "the upgrade rejected by %s with status %d returned %v and answered %q", via, code, err, strings.SplitN(head, "\r\n", 2)[0])
		return
	}
	shared := sharedRejections[k]
	before := renderRejection(shared)
	via, hs, err, resp := s.rejectVia(o, sel, shared)
	head, body := splitResponse(resp)
	after := renderRejection(shared)
	s.logf("%s rejection#%d same-error=%t hs={%s} response={%s} body=%s shared-before=%s shared-after=%s", via, k, err == shared, renderHS(hs), renderHead(head), digest([]byte(body)), before, after)
	s.expect(err == shared && !strings.HasPrefix(head, "HTTP/1.1 101"), "the upgrade rejected by %s returned %v and answered %q", via, err, strings.SplitN(head, "\r\n", 2)[0])
	s.expect(before == after, "the rejection error value shared by all sessions changed during Upgrade: %s -> %s", before, after)
}

// freshStatus hands out status codes no connection of this process has used
// before (600, 601, …): whatever the library keeps per status code is then
// created by this very rejection, in layer 2 by many sessions at once.
var freshStatus int64 = 599

// stepRejectFresh: a rejection with a never-used status. The code differs from
// run to run (also between the solo and the concurrent run), so the transcript
// records whether the status line is the one for the code, and the rest of the
// response, but not the code.
func (s *session) stepRejectFresh(o op) {
	code := int(atomic.AddInt64(&freshStatus, 1))
	own := ws.RejectConnectionError(ws.RejectionStatus(code), ws.RejectionReason("fresh "+word(s.id, 1000+o.idx*16, 5)))
	sel := 0
	if s.id%2 == 1 {
		sel = 4
	}
	via, hs, err, resp := s.rejectVia(o, sel, own)
	head, body := splitResponse(resp)
	line := fmt.Sprintf("HTTP/1.1 %d %s\r\n", code, http.StatusText(code))
	lineOK := strings.HasPrefix(head, line)
	rest := strings.TrimPrefix(head, line)
	s.logf("%s fresh status: same-error=%t hs={%s} status-line-ok=%t headers=%q body=%s", via, err == own, renderHS(hs), lineOK, rest, digest([]byte(body)))
	s.expect(err == own && lineOK, "the upgrade rejected by %s with status %d returned %v and answered %q", via, code, err, strings.SplitN(head, "\r\n", 2)[0])
}

// --- handshakes the library itself rejects -------------------------------------------
//
// The errors it returns are package-level values shared by all connections
// (ws.ErrHandshakeBad*, ErrMalformedRequest, ErrHandshakeUpgradeRequired,
// ErrNotHijacker, …) and the error responses are written from precomputed texts.

type namedErr struct {
	name string
	err  error
}

var libraryErrors = []namedErr{
	{"ErrHandshakeBadProtocol", ws.ErrHandshakeBadProtocol}, {"ErrHandshakeBadMethod", ws.ErrHandshakeBadMethod},
	{"ErrHandshakeBadHost", ws.ErrHandshakeBadHost}, {"ErrHandshakeBadUpgrade", ws.ErrHandshakeBadUpgrade},
	{"ErrHandshakeBadConnection", ws.ErrHandshakeBadConnection}, {"ErrHandshakeBadSecAccept", ws.ErrHandshakeBadSecAccept},
	{"ErrHandshakeBadSecKey", ws.ErrHandshakeBadSecKey}, {"ErrHandshakeBadSecVersion", ws.ErrHandshakeBadSecVersion},
	{"ErrMalformedRequest", ws.ErrMalformedRequest}, {"ErrHandshakeUpgradeRequired", ws.ErrHandshakeUpgradeRequired},
	{"ErrNotHijacker", ws.ErrNotHijacker}, {"ErrMalformedResponse", ws.ErrMalformedResponse},
	{"ErrHandshakeBadSubProtocol", ws.ErrHandshakeBadSubProtocol}, {"ErrHandshakeBadExtensions", ws.ErrHandshakeBadExtensions},
}

func renderLibraryErrors() string {
	var parts []string
	for _, e := range libraryErrors {
		if r, ok := e.err.(*ws.ConnectionRejectedError); ok {
			parts = append(parts, fmt.Sprintf("%s{status=%d %q}", e.name, r.StatusCode(), r.Error()))
		} else {
			parts = append(parts, fmt.Sprintf("%s{%q}", e.name, e.err.Error()))
		}
	}
	return strings.Join(parts, " ")
}

func nameOfErr(err error) string {
	for _, e := range libraryErrors {
		if err == e.err {
			return "ws." + e.name
		}
	}
	return renderErr(err)
}

// plainWriter is an http.ResponseWriter that cannot be hijacked.
type plainWriter struct {
	hdr    http.Header
	status int
	body   bytes.Buffer
}

func (w *plainWriter) Header() http.Header         { return w.hdr }
func (w *plainWriter) WriteHeader(c int)           { w.status = c }
func (w *plainWriter) Write(p []byte) (int, error) { return w.body.Write(p) }

func (s *session) stepBadHandshake(o op) {
	v := o.spec.Which
	good := string(s.request())
	if v <= 10 {
		req, what := good, ""
		switch v {
		case 0:
			req, what = strings.Replace(good, "GET ", "POST ", 1), "method POST"
		case 1:
			req, what = strings.Replace(good, " HTTP/1.1\r\n", " HTTP/1.0\r\n", 1), "HTTP/1.0"
		case 2:
			req, what = strings.Replace(good, "Upgrade: websocket\r\n", "Upgrade: h2c\r\n", 1), "Upgrade: h2c"
		case 3:
			req, what = strings.Replace(good, "Connection: Upgrade\r\n", "", 1), "no Connection header"
		case 4:
			i := strings.Index(good, "Sec-WebSocket-Key: ") + len("Sec-WebSocket-Key: ")
			req, what = good[:i]+"c2hvcnQ="+good[i+24:], "short key"
		case 5, 9:
			req, what = strings.Replace(good, "Sec-WebSocket-Version: 13\r\n", "Sec-WebSocket-Version: 12\r\n", 1), "version 12"
		case 6:
			req, what = strings.Replace(good, "Sec-WebSocket-Version: 13\r\n", "", 1), "no version header"
		case 7:
			i, j := strings.Index(good, "Host: "), strings.Index(good, "Upgrade: ")
			req, what = good[:i]+good[j:], "no Host header"
		case 8:
			req, what = strings.Replace(good, "Upgrade: websocket\r\n", "Upgrade: websocket\r\nthis line has no colon\r\n", 1), "header line without colon"
		case 10:
			what = "ResponseWriter that is no Hijacker"
		}
		rec := tx.NewRec()
		var err error
		var hs ws.Handshake
		via := "Upgrader"
		switch v {
		case 9, 10:
			via = "HTTPUpgrader"
			r, perr := http.ReadRequest(bufio.NewReader(bytes.NewReader([]byte(req))))
			if perr != nil {
				s.expect(false, "harness: net/http does not parse the request: %v", perr)
				return
			}
			if v == 10 {
				pw := &plainWriter{hdr: http.Header{}}
				_, _, hs, err = ws.UpgradeHTTP(r, pw)
				rec.Write([]byte(fmt.Sprintf("status=%d body=%q", pw.status, pw.body.String())))
			} else {
				_, _, hs, err = ws.UpgradeHTTP(r, tx.NewHijackable(s.src(nil, nil), s.dst(rec), 0))
			}
		default:
			u := ws.Upgrader{ReadBufferSize: s.tpl.HS.BufSize, WriteBufferSize: s.tpl.HS.BufSize}
			hs, err = u.Upgrade(tx.RW{Reader: s.src([]byte(req), o.spec.Chunks), Writer: s.dst(rec)})
		}
		resp := string(rec.Bytes())
		s.logf("%s, %s: err=%s hs={%s} response=%s", via, what, nameOfErr(err), renderHS(hs), digest([]byte(resp)))
		s.expect(err != nil && !strings.HasPrefix(resp, "HTTP/1.1 101"), "a request with %s was upgraded (err=%v)", what, err)
		return
	}
	// client side: the server answers with a bad response
	what := ""
	mutate := func(resp string) string { return resp }
	switch v {
	case 11:
		what = "wrong Sec-WebSocket-Accept"
		mutate = func(r string) string {
			i := strings.Index(r, "Sec-WebSocket-Accept: ") + len("Sec-WebSocket-Accept: ")
			c := byte('A')
			if r[i] == 'A' {
				c = 'B'
			}
			return r[:i] + string(c) + r[i+1:]
		}
	case 12:
		what = "no Upgrade header"
		mutate = func(r string) string { return strings.Replace(r, "Upgrade: websocket\r\n", "", 1) }
	case 13:
		what = "Connection: close"
		mutate = func(r string) string { return strings.Replace(r, "Connection: Upgrade\r\n", "Connection: close\r\n", 1) }
	case 14:
		what = "HTTP/1.0 101"
		mutate = func(r string) string { return strings.Replace(r, "HTTP/1.1 101", "HTTP/1.0 101", 1) }
	default:
		what = "a subprotocol that was not offered"
		mutate = func(r string) string {
			return strings.Replace(r, "\r\n\r\n", "\r\nSec-WebSocket-Protocol: never-offered\r\n\r\n", 1)
		}
	}
	peer := &lazyPeer{s: s, chunks: o.spec.Chunks, render: func(key string) []byte {
		return []byte(mutate("HTTP/1.1 101 Switching Protocols\r\nUpgrade: websocket\r\nConnection: Upgrade\r\nSec-WebSocket-Accept: " + acceptFor(key) + "\r\n\r\n"))
	}}
	u, _ := url.Parse(dialURLs[s.id%len(dialURLs)])
	d := ws.Dialer{ReadBufferSize: s.tpl.HS.BufSize, WriteBufferSize: s.tpl.HS.BufSize, Protocols: []string{word(s.id, 1000+o.idx*16, 5)}}
	br, hs, err := d.Upgrade(peer, u)
	if br != nil {
		ws.PutReader(br)
	}
	s.logf("Dialer, server answers with %s: err=%s hs={%s} br-nil=%t", what, nameOfErr(err), renderHS(hs), br == nil)
	s.expect(err != nil, "a response with %s was accepted", what)
}

// stepSharedUpgrade: a server upgrade through one of the run's shared upgraders
// (Protocol made by SelectEqual / SelectFromSlice over 1, 16, 17 or 40 names).
func (s *session) stepSharedUpgrade(o op) {
	k := o.spec.Which % len(protoLists)
	l := protoLists[k]
	want := l[s.id%len(l)]
	req := []byte("GET /" + word(s.id, 1000+o.idx*16, 5) + " HTTP/1.1\r\nHost: shared.example\r\nUpgrade: websocket\r\nConnection: Upgrade\r\n" +
		"Sec-WebSocket-Version: 13\r\nSec-WebSocket-Key: " + base64.StdEncoding.EncodeToString(content(s.id, 1001+o.idx*16, 16, false)) + "\r\n" +
		"Sec-WebSocket-Protocol: " + word(s.id, 1002+o.idx*16, 6) + ", " + want + "\r\n\r\n")
	rec := tx.NewRec()
	var hs ws.Handshake
	var err error
	via := "Upgrader"
	if (o.spec.Which/len(protoLists))%2 == 0 {
		hs, err = s.env.up[k].Upgrade(tx.RW{Reader: s.src(req, o.spec.Chunks), Writer: s.dst(rec)})
	} else {
		via = "HTTPUpgrader"
		r, perr := http.ReadRequest(bufio.NewReader(bytes.NewReader(req)))
		if perr != nil {
			s.expect(false, "harness: net/http does not parse the request: %v", perr)
			return
		}
		_, _, hs, err = s.env.http[k].Upgrade(r, tx.NewHijackable(s.src(nil, nil), s.dst(rec), 0))
	}
	head := string(rec.Bytes())
	s.logf("%s selector#%d (%d names) err=%s hs={%s} response={%s}", via, k, len(l), renderErr(err), renderHS(hs), renderHead(head))
	s.expect(err == nil && hs.Protocol == want, "the shared upgrader (selector over %d names) selected %q, the client offered the supported %q (err=%v)", len(l), hs.Protocol, want, err)
}

// stepSendClose builds a close frame the documented way and sends it; the
// peer decodes status code and reason from what arrived.
func (s *session) stepSendClose(o op) {
	wellKnown := []ws.StatusCode{ws.StatusNormalClosure, ws.StatusGoingAway, ws.StatusProtocolError, ws.StatusUnsupportedData,
		ws.StatusInvalidFramePayloadData, ws.StatusPolicyViolation, ws.StatusMessageTooBig, ws.StatusMandatoryExt, ws.StatusInternalServerError, 3000, 4999}
	code := wellKnown[o.spec.Which%len(wellKnown)]
	reason := ""
	if o.spec.Frag == 3 { // a third of the cases carry a reason
		reason = word(s.id, 1000+o.idx*16, o.spec.Size%120)
	}
	f := ws.NewCloseFrame(ws.NewCloseFrameBody(code, reason))
	if s.tpl.Client {
		f = ws.MaskFrameInPlace(f)
	}
	rec := tx.NewRec()
	err := ws.WriteFrame(s.dst(rec), f)
	// the peer's view
	fs, rest, _ := ref.ParseFrames(rec.Bytes())
	gotCode, gotReason, shape := -1, "", false
	if len(fs) == 1 && len(rest) == 0 && fs[0].H.Op == ref.OpClose && fs[0].H.Fin && fs[0].H.Masked == s.tpl.Client && len(fs[0].Payload) >= 2 {
		shape = true
		gotCode = int(fs[0].Payload[0])<<8 | int(fs[0].Payload[1])
		gotReason = string(fs[0].Payload[2:])
	}
	s.logf("err=%s wrote=%s peer-sees code=%d reason=%s", renderErr(err), renderWire(rec.Bytes()), gotCode, digest([]byte(gotReason)))
	s.expect(err == nil && shape && gotCode == int(code) && gotReason == reason, "close frame built with NewCloseFrameBody(%d, %d-byte reason) arrives as code %d with a %d-byte reason", code, len(reason), gotCode, len(gotReason))
}

// sharedPayloads are read-only messages every session may send (an
// application fanning one message out to many connections). Nobody but
// TestMain writes them.
var sharedPayloads = [][]byte{content(0, 7001, 200, true), content(0, 7002, 5000, false), content(0, 7003, 70000, false)}

func (s *session) stepSharedSend(o op) {
	p := sharedPayloads[o.spec.Which%len(sharedPayloads)]
	wop, rop := ws.OpBinary, byte(ref.OpBinary)
	if o.spec.Which%len(sharedPayloads) == 0 {
		wop, rop = ws.OpText, ref.OpText
	}
	rec := tx.NewRec()
	wsize := 64
	if len(p) > 4096 {
		wsize = o.spec.WSize // 128..4096, smaller than the payload: Write goes through
	}
	var err error
	api := ""
	switch (o.spec.Which / len(sharedPayloads)) % 3 {
	case 0:
		api = "Writer.Write"
		w := wsutil.NewWriterSize(s.dst(rec), s.state, wop, wsize)
		if _, err = w.Write(p); err == nil {
			err = w.Flush()
		}
	case 1:
		api = "Writer.WriteThrough"
		w := wsutil.NewWriterSize(s.dst(rec), s.state, wop, wsize)
		if _, err = w.WriteThrough(p); err == nil {
			err = w.Flush()
		}
	default:
		api = "WriteMessage"
		err = wsutil.WriteMessage(s.dst(rec), s.state, wop, p)
	}
	s.logf("%s len=%d err=%s wrote=%s", api, len(p), renderErr(err), renderWire(rec.Bytes()))
	got, ok := wirePayload(rec.Bytes(), rop, s.tpl.Client)
	s.expect(err == nil && ok && bytes.Equal(got, p), "%s: the wire does not carry the shared %d-byte message", api, len(p))
}

func (s *session) stepReadData(o op) {
	wire, want, ping := s.incoming(o)
	rec := tx.NewRec()
	rw := tx.RW{Reader: s.src(wire, o.spec.Chunks), Writer: s.dst(rec)}
	var p []byte
	var opc ws.OpCode
	var err error
	if s.tpl.Client {
		p, opc, err = wsutil.ReadServerData(rw)
	} else {
		p, opc, err = wsutil.ReadClientData(rw)
	}
	s.logf("err=%s op=%x payload=%s wrote=%s", renderErr(err), opc, digest(p), renderWire(rec.Bytes()))
	s.expect(err == nil && bytes.Equal(p, want), "ReadData: message not delivered intact (err=%v)", err)
	s.expectPongs(rec.Bytes(), ping, o)
}

// expectPongs: every ping of the step is answered with a pong carrying its payload.
func (s *session) expectPongs(wrote []byte, ping []byte, o op) {
	if o.spec.Ctl < 0 {
		s.expect(len(wrote) == 0, "bytes were written although no control frame came in")
		return
	}
	fs, rest, _ := ref.ParseFrames(wrote)
	want := 1
	if o.spec.Frag > 1 {
		want = o.spec.Frag
	}
	ok := len(rest) == 0 && len(fs) == want
	for _, f := range fs {
		if f.H.Op != ref.OpPong || !bytes.Equal(f.Payload, ping) || f.H.Masked != s.tpl.Client {
			ok = false
		}
	}
	s.expect(ok, "pings were not answered by %d pongs with the ping's payload", want)
}

func (s *session) stepReadMsg(o op) {
	wire, want, ping := s.incoming(o)
	rec := tx.NewRec()
	src := s.src(wire, o.spec.Chunks)
	var got []byte
	var lines []string
	var lastErr error
	for round := 0; round < 4; round++ {
		var ms []wsutil.Message
		var err error
		if s.tpl.Client {
			ms, err = wsutil.ReadServerMessage(src, nil)
		} else {
			ms, err = wsutil.ReadClientMessage(src, nil)
		}
		lastErr = err
		data := false
		for _, m := range ms {
			lines = append(lines, fmt.Sprintf("%x=%s", m.OpCode, digest(m.Payload)))
			if m.OpCode.IsControl() {
				var herr error
				if s.tpl.Client {
					herr = wsutil.HandleServerControlMessage(s.dst(rec), m)
				} else {
					herr = wsutil.HandleClientControlMessage(s.dst(rec), m)
				}
				if herr != nil {
					lines = append(lines, "handler:"+renderErr(herr))
				}
			} else {
				data = true
				got = m.Payload
			}
		}
		if err != nil || data {
			break
		}
	}
	s.logf("err=%s messages=%v wrote=%s", renderErr(lastErr), lines, renderWire(rec.Bytes()))
	s.expect(lastErr == nil && bytes.Equal(got, want), "ReadMessage: message not delivered intact (err=%v)", lastErr)
	s.expectPongs(rec.Bytes(), ping, o)
}

func (s *session) stepReader(o op) {
	wire, want, ping := s.incoming(o)
	rec := tx.NewRec()
	if s.rd == nil {
		s.rd = &wsutil.Reader{State: s.state, CheckUTF8: true}
	}
	handler := wsutil.ControlFrameHandler(s.dst(rec), s.state)
	s.rd.Source = s.src(wire, o.spec.Chunks)
	s.rd.OnIntermediate = handler
	var got []byte
	var lines []string
	var err error
	for round := 0; round < 4; round++ {
		var h ws.Header
		h, err = s.rd.NextFrame()
		if err != nil {
			break
		}
		if h.OpCode.IsControl() {
			lines = append(lines, fmt.Sprintf("ctl %x len=%d", h.OpCode, h.Length))
			if err = handler(h, s.rd); err != nil {
				break
			}
			continue
		}
		got, err = io.ReadAll(s.rd)
		lines = append(lines, fmt.Sprintf("msg %x fin=%t %s", h.OpCode, h.Fin, digest(got)))
		break
	}
	s.logf("err=%s events=%v wrote=%s", renderErr(err), lines, renderWire(rec.Bytes()))
	if err != nil {
		s.rd = nil // a reader that reported an error is not used again
	}
	s.expect(err == nil && bytes.Equal(got, want), "Reader: message not delivered intact (err=%v)", err)
	s.expectPongs(rec.Bytes(), ping, o)
}

// stepControl runs ControlHandler over a raw (still masked, on the server) control payload.
func (s *session) stepControl(o op, opc ws.OpCode, payload []byte) (error, []byte) {
	mask := peerMask(s.id, 2000+o.idx*16)
	raw := payload
	hdr := ws.Header{Fin: true, OpCode: opc, Length: int64(len(payload))}
	if !s.tpl.Client {
		raw = ref.Mask(payload, mask, 0)
		hdr.Masked, hdr.Mask = true, mask
	}
	rec := tx.NewRec()
	h := wsutil.ControlHandler{Src: s.src(raw, o.spec.Chunks), Dst: s.dst(rec), State: s.state}
	err := h.Handle(hdr)
	return err, rec.Bytes()
}

func (s *session) stepPing(o op) {
	p := content(s.id, 1000+o.idx*16, o.spec.Size, false)
	err, wrote := s.stepControl(o, ws.OpPing, p)
	s.logf("err=%s wrote=%s", renderErr(err), renderWire(wrote))
	fs, rest, _ := ref.ParseFrames(wrote)
	s.expect(err == nil && len(rest) == 0 && len(fs) == 1 && fs[0].H.Op == ref.OpPong && bytes.Equal(fs[0].Payload, p), "HandlePing did not answer with one pong carrying the %d-byte payload", len(p))
}

func (s *session) stepPong(o op) {
	p := content(s.id, 1000+o.idx*16, o.spec.Size, false)
	err, wrote := s.stepControl(o, ws.OpPong, p)
	s.logf("err=%s wrote=%s", renderErr(err), renderWire(wrote))
	s.expect(err == nil && len(wrote) == 0, "HandlePong: err=%v, %d bytes written", err, len(wrote))
}

var closeCodes = []ws.StatusCode{1000, 1001, 1002, 1003, 1007, 1008, 1009, 1010, 1011, 3000, 3999, 4000, 4999}

func (s *session) stepClose(o op, bad bool) {
	var p []byte
	var code ws.StatusCode
	reason := ""
	if o.spec.Size >= 2 {
		code = closeCodes[o.spec.Which%len(closeCodes)]
		if bad {
			code = 1005
		}
		reason = word(s.id, 1000+o.idx*16, o.spec.Size-2)
		p = append([]byte{byte(code >> 8), byte(code)}, reason...)
	} else {
		code = ws.StatusNoStatusRcvd
	}
	err, wrote := s.stepControl(o, ws.OpClose, p)
	var ce wsutil.ClosedError
	isClosed := errors.As(err, &ce)
	s.logf("err=%s closed=%t code=%d reason=%s wrote=%s", renderErr(err), isClosed, ce.Code, digest([]byte(ce.Reason)), renderWire(wrote))
	s.closed = true
	if !bad {
		s.expect(isClosed && ce.Code == code && ce.Reason == reason, "HandleClose reported %v, the peer sent code %d and a %d-byte reason", err, code, len(reason))
	}
}

// stepCompiled sends a precompiled frame: as is on the server, re-read and
// masked into a copy on the client (the shared bytes are only read).
func (s *session) stepCompiled(o op) {
	c := compiledTable[o.spec.Which%len(compiledTable)]
	name, b := c.name, c.get()
	rec := tx.NewRec()
	var err error
	if s.tpl.Client {
		var f ws.Frame
		f, err = ws.ReadFrame(bytes.NewReader(b))
		if err == nil {
			err = ws.WriteFrame(s.dst(rec), ws.MaskFrame(f))
		}
	} else {
		_, err = s.dst(rec).Write(b)
	}
	s.logf("%s err=%s wrote=%s", name, renderErr(err), renderWire(rec.Bytes()))
}

// sharedUpgradeDialer is an application-wide Dialer with offers, used by
// value for Dialer.Upgrade by every "shared-dialer" session. Read-only for
// the sessions; the library has to copy what it adjusts per handshake.
var sharedUpgradeDialer = ws.Dialer{
	Protocols: []string{"chat.v1", "chat.v2", "soap"},
	Extensions: []httphead.Option{
		httphead.NewOption("permessage-deflate", map[string]string{"client_max_window_bits": ""}),
		httphead.NewOption("x-ext", map[string]string{"k": "offer"}),
	},
}

const sharedOffer = "permessage-deflate;client_max_window_bits,x-ext;k=offer"

func renderSharedOffers() string {
	var parts []string
	for _, o := range sharedUpgradeDialer.Extensions {
		parts = append(parts, renderOption(o))
	}
	return strings.Join(parts, " | ") + " protocols=" + strings.Join(sharedUpgradeDialer.Protocols, ",")
}

// --- wss dial through the Dialer value all sessions share --------------------

// sharedTLS / sharedDialer play the role of an application-wide Dialer: one
// value (and one user-supplied *tls.Config with empty ServerName) used by every
// session. The library documents that such a config is cloned per dial.
var (
	sharedTLS    = &tls.Config{MinVersion: tls.VersionTLS12}
	sharedDialer = ws.Dialer{TLSConfig: sharedTLS, NetDial: func(ctx context.Context, network, addr string) (net.Conn, error) {
		if c, ok := wssConns.Load(addr); ok {
			return c.(net.Conn), nil
		}
		return nil, fmt.Errorf("harness: no in-memory peer registered for %s", addr)
	}}
	wssConns sync.Map // "host:443" -> the dialing session's in-memory conn
)

// clientHelloSNI extracts the host name of the server_name extension from the
// first TLS record of b ("" if there is none, "?" if b is not a ClientHello).
func clientHelloSNI(b []byte) string {
	if len(b) < 5 || b[0] != 0x16 {
		return "?"
	}
	n := int(b[3])<<8 | int(b[4])
	b = b[5:]
	if n > len(b) {
		return "?"
	}
	b = b[:n]
	if len(b) < 4 || b[0] != 1 {
		return "?"
	}
	b = b[4:]
	skip := func(k int) bool {
		if len(b) < k {
			return false
		}
		b = b[k:]
		return true
	}
	vec := func(lenBytes int) bool {
		if len(b) < lenBytes {
			return false
		}
		l := 0
		for i := 0; i < lenBytes; i++ {
			l = l<<8 | int(b[i])
		}
		return skip(lenBytes + l)
	}
	if !skip(2+32) || !vec(1) || !vec(2) || !vec(1) || len(b) < 2 {
		return "?"
	}
	b = b[2:]
	for len(b) >= 4 {
		typ, l := int(b[0])<<8|int(b[1]), int(b[2])<<8|int(b[3])
		b = b[4:]
		if l > len(b) {
			return "?"
		}
		if typ == 0 {
			e := b[:l]
			if len(e) < 5 || e[2] != 0 {
				return "?"
			}
			nl := int(e[3])<<8 | int(e[4])
			if 5+nl > len(e) {
				return "?"
			}
			return string(e[5 : 5+nl])
		}
		b = b[l:]
	}
	return ""
}

// stepWssDial dials wss://<host of this session>/ with the shared Dialer over
// an in-memory conn whose peer hangs up after the ClientHello: the dial fails,
// the ClientHello shows for which host the TLS client was configured.
func (s *session) stepWssDial(o op) {
	host := fmt.Sprintf("h%d-%s.test", s.id, word(s.id, 1000+o.idx*16, 6))
	rec := tx.NewRec()
	conn := &tx.MemConn{R: s.src(nil, nil), W: s.dst(rec)}
	wssConns.Store(host+":443", conn)
	d, which := sharedDialer, "shared-config"
	if o.spec.Which%2 == 1 {
		// TLSConfig nil: the library's package-level default config is the shared object
		d, which = ws.Dialer{NetDial: sharedDialer.NetDial}, "default-config"
	}
	c, br, _, err := d.Dial(context.Background(), "wss://"+host+"/"+word(s.id, 1001+o.idx*16, 4))
	wssConns.Delete(host + ":443")
	if br != nil {
		ws.PutReader(br)
	}
	sni := clientHelloSNI(rec.Bytes())
	s.logf("%s host=%s failed=%t conn-nil=%t closed=%t client-hello-sni=%q", which, host, err != nil, c == nil, conn.Closed, sni)
	s.expect(sni == host, "wss dial to %s: the TLS ClientHello names %q", host, sni)
}

// --- compression ------------------------------------------------------------

func flateCtor(w io.Writer) wsflate.Compressor {
	f, _ := flate.NewWriter(w, 5)
	return f
}

func flateDtor(r io.Reader) wsflate.Decompressor { return flate.NewReader(r) }

// deflate is the peer's compressor: compress/flate, sync flush, tail stripped (RFC 7692 §7.2.1).
func deflate(p []byte) []byte {
	var b bytes.Buffer
	fw, _ := peerCompressors.Get().(*flate.Writer)
	if fw == nil {
		fw, _ = flate.NewWriter(&b, 6)
	} else {
		fw.Reset(&b)
	}
	fw.Write(p)
	fw.Flush()
	peerCompressors.Put(fw)
	return b.Bytes()[:b.Len()-4]
}

// the harness's own compressors are recycled (allocating one is the most
// expensive thing a session does, in particular under the race detector)
var peerCompressors sync.Pool

// inflate is the peer's decompressor.
func inflate(p []byte) ([]byte, error) {
	r := flate.NewReader(io.MultiReader(bytes.NewReader(p), bytes.NewReader([]byte{0, 0, 0xff, 0xff, 1, 0, 0, 0xff, 0xff})))
	return io.ReadAll(r)
}

func (s *session) expectInflates(wrote []byte, want []byte, what string) {
	fs, rest, _ := ref.ParseFrames(wrote)
	var comp []byte
	ok := len(rest) == 0 && len(fs) > 0
	for i, f := range fs {
		if (i == 0) != (f.H.Rsv&4 != 0) {
			ok = false
		}
		comp = append(comp, f.Payload...)
	}
	got, err := inflate(comp)
	s.expect(ok && err == nil && bytes.Equal(got, want), "%s: the wire does not inflate to the %d-byte message (err=%v)", what, len(want), err)
}

func (s *session) stepFlateSend(o op) {
	wop, _ := s.opcode(o.spec)
	p := s.payload(o, 0)
	f := ws.NewFrame(wop, true, p)
	var cf ws.Frame
	var err error
	flavour := "DefaultHelper"
	if o.spec.Which%2 == 0 {
		cf, err = wsflate.CompressFrame(f)
	} else {
		flavour = "own-helper"
		if s.helper.Compressor == nil {
			s.helper = wsflate.Helper{Compressor: flateCtor, Decompressor: flateDtor}
		}
		cf, err = s.helper.CompressFrame(f)
	}
	rec := tx.NewRec()
	if err == nil {
		if s.tpl.Client {
			cf = ws.MaskFrameInPlace(cf)
		}
		err = ws.WriteFrame(s.dst(rec), cf)
	}
	s.logf("%s err=%s wrote=%s", flavour, renderErr(err), renderWire(rec.Bytes()))
	s.expectInflates(rec.Bytes(), p, "CompressFrame")
	s.keepResult(cf.Payload, "payload of the frame returned by CompressFrame")
}

func (s *session) stepFlateRecv(o op) {
	_, rop := s.opcode(o.spec)
	p := s.payload(o, 0)
	fr := ref.Frame{H: ref.Header{Fin: true, Rsv: 4, Op: rop, Masked: !s.tpl.Client, Mask: peerMask(s.id, 2000+o.idx*16)}, Payload: deflate(p)}
	f, err := ws.ReadFrame(s.src(fr.Encode(), o.spec.Chunks))
	var out ws.Frame
	if err == nil {
		if f.Header.Masked {
			f = ws.UnmaskFrameInPlace(f)
		}
		if o.spec.Which%2 == 0 {
			out, err = wsflate.DecompressFrame(f)
		} else {
			if s.helper.Compressor == nil {
				s.helper = wsflate.Helper{Compressor: flateCtor, Decompressor: flateDtor}
			}
			out, err = s.helper.DecompressFrame(f)
		}
	}
	s.logf("err=%s rsv=%d op=%x payload=%s", renderErr(err), out.Header.Rsv, out.Header.OpCode, digest(out.Payload))
	s.expect(err == nil && bytes.Equal(out.Payload, p), "DecompressFrame: message not recovered (err=%v)", err)
	s.keepResult(out.Payload, "message returned by DecompressFrame")
}

// flate-bytes: Helper.Compress / Helper.Decompress on plain byte slices
// (DefaultHelper or the session's own helper); both results are kept.
func (s *session) stepFlateBytes(o op) {
	p := s.payload(o, 0)
	h := &wsflate.DefaultHelper
	flavour := "DefaultHelper"
	if o.spec.Which%2 == 1 {
		flavour = "own-helper"
		if s.helper.Compressor == nil {
			s.helper = wsflate.Helper{Compressor: flateCtor, Decompressor: flateDtor}
		}
		h = &s.helper
	}
	comp, err := h.Compress(p)
	back, err2 := h.Decompress(deflate(p)) // what the peer's compressor produced
	var own []byte
	var err3 error
	if err == nil {
		own, err3 = inflate(comp)
	}
	s.logf("%s compress err=%s %s decompress err=%s %s", flavour, renderErr(err), digest(comp), renderErr(err2), digest(back))
	s.expect(err == nil && err2 == nil && err3 == nil && bytes.Equal(back, p) && bytes.Equal(own, p), "Helper.Compress/Decompress do not round-trip the %d-byte message (%v, %v, %v)", len(p), err, err2, err3)
	s.keepResult(comp, "result of Helper.Compress")
	s.keepResult(back, "result of Helper.Decompress")
}

// flate-writer: wsflate.Writer (kept for the whole session, Reset per message)
// over a wsutil.Writer with the message state as send extension.
func (s *session) stepFlateWriterWrite(o op) {
	wop, _ := s.opcode(o.spec)
	s.wrec = tx.NewRec()
	if s.fw == nil {
		if s.tpl.HS.Sel%2 == 0 {
			// the compressor constructor of the package-level DefaultHelper; the Writer keeps
			// its compressor across Reset/Close, as the documentation of Reset describes
			s.fw = wsflate.NewWriter(nil, wsflate.DefaultHelper.Compressor)
		} else {
			s.fw = wsflate.NewWriter(nil, flateCtor)
		}
		s.fwOut = wsutil.NewWriterSize(s.dst(s.wrec), s.state|ws.StateExtended, wop, o.spec.WSize)
	}
	s.fwOut.Reset(s.dst(s.wrec), s.state|ws.StateExtended, wop)
	s.fwOut.SetExtensions(&s.msgW)
	s.msgW.SetCompressed(true)
	s.fw.Reset(s.fwOut)
	p := s.payload(o, 0)
	n, err := s.fw.Write(p)
	s.logf("n=%d err=%s", n, renderErr(err))
}

func (s *session) stepFlateWriterFlush(o op) {
	err := s.fw.Close()
	if err == nil {
		err = s.fwOut.Flush()
	}
	s.logf("err=%s wrote=%s", renderErr(err), renderWire(s.wrec.Bytes()))
	s.expectInflates(s.wrec.Bytes(), s.payload(o, 0), "wsflate.Writer")
}

func (s *session) stepFlateReader(o op) {
	_, rop := s.opcode(o.spec)
	p := s.payload(o, 0)
	comp := deflate(p)
	masked := !s.tpl.Client
	n := o.spec.Frag
	var fs []ref.Frame
	for i := 0; i < n; i++ {
		lo, hi := len(comp)*i/n, len(comp)*(i+1)/n
		h := ref.Header{Fin: i == n-1, Op: rop, Masked: masked, Mask: peerMask(s.id, 2000+o.idx*16+i)}
		if i == 0 {
			h.Rsv = 4
		} else {
			h.Op = ref.OpCont
		}
		fs = append(fs, ref.Frame{H: h, Payload: comp[lo:hi]})
	}
	if s.fr == nil {
		s.fr = wsflate.NewReader(nil, flateDtor)
	}
	rd := &wsutil.Reader{Source: s.src(ref.EncodeAll(fs), o.spec.Chunks), State: s.state | ws.StateExtended, Extensions: []wsutil.RecvExtension{&s.msgR}}
	h, err := rd.NextFrame()
	var got []byte
	if err == nil {
		if s.msgR.IsCompressed() {
			s.fr.Reset(rd)
			got, err = io.ReadAll(s.fr)
		} else {
			got, err = io.ReadAll(rd)
		}
	}
	s.logf("err=%s op=%x compressed=%t payload=%s", renderErr(err), h.OpCode, s.msgR.IsCompressed(), digest(got))
	s.expect(err == nil && bytes.Equal(got, p), "wsflate.Reader: message not recovered (err=%v)", err)
	s.keepResult(got, "message read through wsflate.Reader")
}

// ---------------------------------------------------------------------------
// step dispatch

// step runs the next op of the session.
func (s *session) step() {
	o := s.ops[s.pc]
	switch o.name {
	case "handshake":
		s.stepHandshake()
	case "br-read":
		s.stepBrRead()
	case "br-put":
		s.stepBrPut()
	case "hs-recheck":
		s.logf("err=%s hs={%s} own-buffers=%d", renderErr(s.hsErr), renderHS(s.hs), len(s.kept))
	default:
		if s.hsErr != nil {
			s.logf("skipped (handshake failed)")
			break
		}
		switch o.name {
		case "write-msg":
			s.stepWriteMsg(o)
		case "writer-get":
			s.stepWriterGet(o)
		case "writer-write":
			s.stepWriterWrite(o)
		case "writer-flush":
			s.stepWriterFlush(o)
		case "writer-put":
			s.stepWriterPut(o)
		case "writer-fail":
			s.stepWriterFail(o)
		case "ownbuf-grow":
			s.stepOwnbufGrow(o)
		case "ownbuf-reuse-write":
			s.stepOwnbufReuseWrite(o)
		case "ownbuf-reuse-flush":
			s.stepOwnbufReuseFlush(o)
		case "cipher-writer-1":
			s.stepCipherWriter1(o)
		case "cipher-writer-2":
			s.stepCipherWriter2(o)
		case "cipher-reader-1":
			s.stepCipherReader1(o)
		case "cipher-reader-2":
			s.stepCipherReader2(o)
		case "readfrom-copy":
			s.stepReadFromCopy(o)
		case "readfrom-flush":
			s.stepReadFromFlush(o)
		case "control-writer-1":
			s.stepControlWriter1(o)
		case "control-writer-2":
			s.stepControlWriter2(o)
		case "mask-helpers":
			s.stepMaskHelpers(o)
		case "tcp-dial":
			s.stepTCPDial(o)
		case "extw-get":
			s.stepExtwGet(o)
		case "extw-write":
			s.stepExtwWrite(o)
		case "extw-flush":
			s.stepExtwFlush(o)
		case "extw-put":
			s.stepExtwPut(o)
		case "reject":
			s.stepReject(o)
		case "reject-fresh":
			s.stepRejectFresh(o)
		case "shared-upgrade":
			s.stepSharedUpgrade(o)
		case "bad-handshake":
			s.stepBadHandshake(o)
		case "shared-send":
			s.stepSharedSend(o)
		case "send-close":
			s.stepSendClose(o)
		case "read-data":
			s.stepReadData(o)
		case "read-msg":
			s.stepReadMsg(o)
		case "reader":
			s.stepReader(o)
		case "ping":
			s.stepPing(o)
		case "pong":
			s.stepPong(o)
		case "compiled":
			s.stepCompiled(o)
		case "wss-dial":
			s.stepWssDial(o)
		case "close":
			s.stepClose(o, false)
		case "close-bad":
			s.stepClose(o, true)
		case "flate-send":
			s.stepFlateSend(o)
		case "flate-recv":
			s.stepFlateRecv(o)
		case "flate-bytes":
			s.stepFlateBytes(o)
		case "flate-writer-write":
			s.stepFlateWriterWrite(o)
		case "flate-writer-flush":
			s.stepFlateWriterFlush(o)
		case "flate-reader":
			s.stepFlateReader(o)
		default:
			panic("harness: unknown op " + o.name)
		}
	}
	s.checkKept()
	s.pc++
}

// runSolo runs a fresh copy of the session alone and returns its transcript.
func runSolo(id int, tp *template) []string {
	s := newSession(id, tp)
	s.env = newEnv()
	for !s.done() {
		s.step()
	}
	return s.tr
}

// broken returns the first "!!" line of a transcript (an absolute expectation that failed).
func broken(tr []string) string {
	for i, l := range tr {
		if strings.HasPrefix(l, "!! ") {
			ctx := ""
			if i > 0 {
				ctx = " (after: " + clip(tr[i-1], 300) + ")"
			}
			return l + ctx
		}
	}
	return ""
}

func clip(s string, n int) string {
	if len(s) > n {
		return s[:n] + "…"
	}
	return s
}

// diff returns the first differing transcript line.
func diff(want, got []string) (int, string, string) {
	for i := 0; i < len(want) || i < len(got); i++ {
		w, g := "<missing>", "<missing>"
		if i < len(want) {
			w = want[i]
		}
		if i < len(got) {
			g = got[i]
		}
		if w != g {
			return i, w, g
		}
	}
	return -1, "", ""
}
