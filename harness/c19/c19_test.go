// C19 — concurrent connections do not interfere through the library's shared
// pools, default values and precompiled frames.
//
// Layer 1 (TestInterleaved*): the harness owns the schedule. N sessions are
// decomposed into API-call steps; rapid draws the interleaving; everything runs
// on one goroutine with GOMAXPROCS(1) and the collector off, so sync.Pool hands
// the object just put back by one session to the next session that asks. At
// drawn transport calls (the places where a real connection would block) a
// whole step of another session is run *inside* the pending library call.
// Oracle: each session's transcript equals the transcript of the same session
// run alone.
//
// Layer 2 (TestConcurrent*): the same sessions, one goroutine each, real
// scheduler, GOMAXPROCS in {2,4,16}; the "race" variant of props.json builds
// this with -race. Oracle: solo transcripts + no race report. This layer
// samples schedules it does not control.
package c19

import (
	"flag"
	"fmt"
	"os"
	"reflect"
	"runtime"
	"runtime/debug"
	"sort"
	"strings"
	"sync"
	"sync/atomic"
	"testing"

	"github.com/gobwas/ws"
	"github.com/gobwas/ws/wsflate"
	"github.com/gobwas/ws/wsutil"
	"pgregory.net/rapid"

	"verif/harness/hx"
	"verif/harness/ref"
)

var baseline string // the shared values as they were before the first library call

func TestMain(m *testing.M) {
	baseline = sharedSnapshot()
	hx.Main(m, "C19")
}

// ---------------------------------------------------------------------------
// package-level shared values

type compiledEntry struct {
	name string
	get  func() []byte
	op   byte
	code int // 0 = empty payload
}

var compiledTable = []compiledEntry{
	{"CompiledPing", func() []byte { return ws.CompiledPing }, ref.OpPing, 0},
	{"CompiledPong", func() []byte { return ws.CompiledPong }, ref.OpPong, 0},
	{"CompiledClose", func() []byte { return ws.CompiledClose }, ref.OpClose, 0},
	{"CompiledCloseNormalClosure", func() []byte { return ws.CompiledCloseNormalClosure }, ref.OpClose, 1000},
	{"CompiledCloseGoingAway", func() []byte { return ws.CompiledCloseGoingAway }, ref.OpClose, 1001},
	{"CompiledCloseProtocolError", func() []byte { return ws.CompiledCloseProtocolError }, ref.OpClose, 1002},
	{"CompiledCloseUnsupportedData", func() []byte { return ws.CompiledCloseUnsupportedData }, ref.OpClose, 1003},
	{"CompiledCloseNoMeaningYet", func() []byte { return ws.CompiledCloseNoMeaningYet }, ref.OpClose, 1004},
	{"CompiledCloseInvalidFramePayloadData", func() []byte { return ws.CompiledCloseInvalidFramePayloadData }, ref.OpClose, 1007},
	{"CompiledClosePolicyViolation", func() []byte { return ws.CompiledClosePolicyViolation }, ref.OpClose, 1008},
	{"CompiledCloseMessageTooBig", func() []byte { return ws.CompiledCloseMessageTooBig }, ref.OpClose, 1009},
	{"CompiledCloseMandatoryExt", func() []byte { return ws.CompiledCloseMandatoryExt }, ref.OpClose, 1010},
	{"CompiledCloseInternalServerError", func() []byte { return ws.CompiledCloseInternalServerError }, ref.OpClose, 1011},
	{"CompiledCloseTLSHandshake", func() []byte { return ws.CompiledCloseTLSHandshake }, ref.OpClose, 1015},
}

func renderValue(v reflect.Value) string {
	switch v.Kind() {
	case reflect.Struct:
		var parts []string
		for i := 0; i < v.NumField(); i++ {
			parts = append(parts, v.Type().Field(i).Name+"="+renderValue(v.Field(i)))
		}
		return "{" + strings.Join(parts, " ") + "}"
	case reflect.Func, reflect.Interface, reflect.Ptr, reflect.Chan:
		if v.IsNil() {
			return "nil"
		}
		if v.Kind() == reflect.Func {
			return fmt.Sprintf("func@%x", v.Pointer())
		}
		return "non-nil " + v.Type().String()
	case reflect.Map:
		if v.IsNil() {
			return "nil"
		}
		return fmt.Sprintf("map(len %d)", v.Len())
	case reflect.Slice:
		if v.IsNil() {
			return "nil"
		}
		var parts []string
		for i := 0; i < v.Len(); i++ {
			parts = append(parts, renderValue(v.Index(i)))
		}
		return "[" + strings.Join(parts, " ") + "]"
	case reflect.Bool:
		return fmt.Sprint(v.Bool())
	case reflect.Int, reflect.Int8, reflect.Int16, reflect.Int32, reflect.Int64:
		return fmt.Sprint(v.Int())
	case reflect.Uint, reflect.Uint8, reflect.Uint16, reflect.Uint32, reflect.Uint64:
		return fmt.Sprint(v.Uint())
	case reflect.String:
		return fmt.Sprintf("%q", v.String())
	}
	return "?" + v.Kind().String()
}

// sharedSnapshot renders every package-level value the sessions use.
func sharedSnapshot() string {
	var lines []string
	for _, c := range compiledTable {
		b := c.get()
		lines = append(lines, fmt.Sprintf("ws.%s=%x cap=%d", c.name, b, cap(b)))
	}
	lines = append(lines,
		"ws.DefaultUpgrader="+renderValue(reflect.ValueOf(ws.DefaultUpgrader)),
		"ws.DefaultHTTPUpgrader="+renderValue(reflect.ValueOf(ws.DefaultHTTPUpgrader)),
		"ws.DefaultDialer="+renderValue(reflect.ValueOf(ws.DefaultDialer)),
		"wsutil.DefaultWriteBuffer="+fmt.Sprint(wsutil.DefaultWriteBuffer),
		"wsflate.DefaultParameters="+renderValue(reflect.ValueOf(wsflate.DefaultParameters)),
		"wsflate.DefaultHelper="+renderValue(reflect.ValueOf(wsflate.DefaultHelper)),
		fmt.Sprintf("harness: TLSConfig of the Dialer shared by all sessions: ServerName=%q MinVersion=%d RootCAs-nil=%t NextProtos=%v", sharedTLS.ServerName, sharedTLS.MinVersion, sharedTLS.RootCAs == nil, sharedTLS.NextProtos),
		"harness: shared Dialer="+renderValue(reflect.ValueOf(sharedDialer)),
		fmt.Sprintf("harness: read-only payloads shared by all sessions: %s %s %s", digest(sharedPayloads[0]), digest(sharedPayloads[1]), digest(sharedPayloads[2])),
		"harness: offers of the Dialer shared by all shared-dialer sessions: "+renderSharedOffers(),
		"harness: rejection errors shared by all sessions: "+renderSharedRejections(),
		"harness: send extension list shared by all sessions: "+renderSharedExts(),
		"ws: handshake error values shared by all connections: "+renderLibraryErrors(),
		"wsflate: window bits as rendered by Parameters.Option (served from a package-level table): "+renderWindowBits(),
		fmt.Sprintf("ws.StatusRanges=%v %v %v %v", ws.StatusRangeNotInUse, ws.StatusRangeProtocol, ws.StatusRangeApplication, ws.StatusRangePrivate),
	)
	return strings.Join(lines, "\n")
}

func renderWindowBits() string {
	var parts []string
	for b := 8; b <= 15; b++ {
		o := wsflate.Parameters{ServerMaxWindowBits: wsflate.WindowBits(b), ClientMaxWindowBits: wsflate.WindowBits(b)}.Option()
		parts = append(parts, renderOption(o))
	}
	return strings.Join(parts, " ")
}

// checkShared compares the shared values with the baseline and the precompiled
// frames with the reference encoding. It returns a description of the damage.
func checkShared() string {
	for _, c := range compiledTable {
		var p []byte
		if c.code != 0 {
			p = []byte{byte(c.code >> 8), byte(c.code)}
		}
		want := ref.Frame{H: ref.Header{Fin: true, Op: c.op}, Payload: p}.Encode()
		if got := c.get(); string(got) != string(want) {
			return fmt.Sprintf("ws.%s is %x, the frame it stands for encodes as %x", c.name, got, want)
		}
	}
	for b := 8; b <= 15; b++ {
		o := wsflate.Parameters{ServerMaxWindowBits: wsflate.WindowBits(b)}.Option()
		if got, want := renderOption(o), fmt.Sprintf("permessage-deflate;server_max_window_bits=%d", b); got != want {
			return fmt.Sprintf("wsflate.Parameters{ServerMaxWindowBits: %d}.Option() renders as %q", b, got)
		}
	}
	if now := sharedSnapshot(); now != baseline {
		a, b := strings.Split(baseline, "\n"), strings.Split(now, "\n")
		for i := range a {
			if i < len(b) && a[i] != b[i] {
				return fmt.Sprintf("a package-level value changed:\n  at start: %s\n  now:      %s", a[i], b[i])
			}
		}
		return "package-level values changed"
	}
	return ""
}

func TestSharedValuesBaseline(t *testing.T) {
	if msg := checkShared(); msg != "" {
		hx.Failf(t, nil, "before any session ran: %s", msg)
	}
}

// ---------------------------------------------------------------------------
// drawing a case: templates and the assignment of sessions to them

func drawTemplates(t *rapid.T, max int, light bool) []template {
	n := rapid.IntRange(1, max).Draw(t, "ntemplates")
	tps := make([]template, n)
	// one case in 24 also dials over loopback TCP (bounded: every such dial costs an ephemeral port)
	tcp := rapid.IntRange(0, 23).Draw(t, "loopback-tcp") == 0
	for i := range tps {
		tps[i] = drawTemplate(t, light, tcp)
	}
	return tps
}

func describeTemplate(tp template) string {
	var ks []string
	for _, s := range tp.Steps {
		ks = append(ks, fmt.Sprintf("%s/%d", s.Kind, s.Size))
	}
	return fmt.Sprintf("%s %s buf=%d trailing=%d yield=%d [%s]", tp.role(), tp.HS.Mode, tp.HS.BufSize, tp.HS.Trailing, tp.Yield, strings.Join(ks, " "))
}

func classCase(prefix string, tps []template, use []int) {
	seen := map[int]bool{}
	for _, k := range use {
		if seen[k] {
			continue
		}
		seen[k] = true
		tp := tps[k]
		hx.Class(prefix + "/session/" + tp.role() + "/" + tp.HS.Mode)
		for _, s := range tp.Steps {
			hx.Class(prefix + "/step/" + s.Kind + "/class=" + fmt.Sprint(sizeClass(s.Size+14)))
		}
	}
}

// guard runs f and converts a panic (including, with SetPanicOnFault, a fault
// on a buffer the sanitizing allocator has revoked) into a message.
func guard(f func()) (msg string) {
	defer func() {
		if r := recover(); r != nil {
			msg = fmt.Sprintf("%v\n%s", r, clip(string(debug.Stack()), 3000))
		}
	}()
	f()
	return ""
}

// ---------------------------------------------------------------------------
// layer 1: harness-owned interleaving

var (
	caseNo   int
	allocEst int
)

// housekeeping bounds memory: the collector only runs between cases.
func housekeeping(cost int) {
	caseNo++
	allocEst += cost
	every := 64
	if os.Getenv("VERIF_VARIANT") == "sanitize" {
		every = 8 // every pooled buffer is its own mapping under pool_sanitize
	}
	if caseNo%every == 0 || allocEst > 300<<20 {
		runtime.GC()
		allocEst = 0
	}
}

type sched struct {
	ss     []*session
	order  []int
	busy   []bool
	depth  int
	gaps   []int
	gi     int
	cnt    int
	nested int

	lastSess int
	lastKey  string
	handoffs int
	trace    []string
}

func (c *sched) exec(i int) {
	s := c.ss[i]
	if s.done() {
		return
	}
	o := s.ops[s.pc]
	key := fmt.Sprintf("%s/%d", o.fam, o.class)
	if c.lastKey == key && c.lastSess != i {
		c.handoffs++
	}
	c.lastKey, c.lastSess = key, i
	c.trace = append(c.trace, fmt.Sprintf("%s%d:%s", strings.Repeat(">", c.depth), s.id, o.name))
	c.busy[i] = true
	c.depth++
	s.step()
	c.depth--
	c.busy[i] = false
}

// onIO is called from inside a library call of a session, at a transport
// Read/Write. According to the drawn plan it runs the next step of another
// session right there.
func (c *sched) onIO() {
	if c.gi >= len(c.gaps) || c.depth >= 3 {
		return
	}
	c.cnt++
	if c.cnt < c.gaps[c.gi] {
		return
	}
	c.cnt = 0
	c.gi++
	for k, i := range c.order {
		if !c.busy[i] && !c.ss[i].done() {
			c.order = append(c.order[:k:k], c.order[k+1:]...)
			c.nested++
			c.exec(i)
			return
		}
	}
}

func (c *sched) run() {
	for len(c.order) > 0 {
		i := c.order[0]
		c.order = c.order[1:]
		if c.busy[i] {
			continue
		}
		c.exec(i)
	}
	// steps whose slot was consumed while the session was busy
	for i, s := range c.ss {
		for !s.done() {
			c.exec(i)
		}
	}
}

func estimateCost(tp template) int {
	n := 64 << 10
	for _, s := range tp.Steps {
		n += 4 * s.Size
		if strings.HasPrefix(s.Kind, "flate") {
			n += 1500 << 10
		}
	}
	return n
}

func TestInterleavedSessions(t *testing.T) {
	prevProcs := runtime.GOMAXPROCS(1)
	prevGC := debug.SetGCPercent(-1)
	prevFault := debug.SetPanicOnFault(true)
	defer func() {
		debug.SetPanicOnFault(prevFault)
		debug.SetGCPercent(prevGC)
		runtime.GOMAXPROCS(prevProcs)
		runtime.GC()
	}()
	hx.Check(t, 16, func(t *rapid.T) {
		tcpCaseStart()
		tps := drawTemplates(t, 3, false)
		n := rapid.IntRange(2, 6).Draw(t, "sessions")
		use := make([]int, n)
		ids := make([]int, n)
		cost := 0
		for i := range use {
			use[i] = rapid.IntRange(0, len(tps)-1).Draw(t, "template")
			ids[i] = i + 1
			cost += 2 * estimateCost(tps[use[i]])
		}
		base := rapid.IntRange(0, 400).Draw(t, "idbase")
		housekeeping(cost)

		// solo transcripts, on fresh sessions and transports
		solo := make([][]string, n)
		for i := range use {
			id := base + ids[i]
			if msg := guard(func() { solo[i] = runSolo(id, &tps[use[i]]) }); msg != "" {
				t.Fatalf("session %d (%s) run alone panics: %s", id, describeTemplate(tps[use[i]]), msg)
			}
			if b := broken(solo[i]); b != "" {
				t.Fatalf("session %d (%s) run alone does not get what its peer sent: %s", id, describeTemplate(tps[use[i]]), b)
			}
		}
		if msg := checkShared(); msg != "" {
			t.Fatalf("after the solo runs: %s", msg)
		}

		// the interleaving
		c := &sched{lastSess: -1}
		env := newEnv()
		for i := range use {
			s := newSession(base+ids[i], &tps[use[i]])
			s.env = env
			s.io = c.onIO
			c.ss = append(c.ss, s)
		}
		c.busy = make([]bool, n)
		mode := rapid.SampledFrom([]string{"round-robin", "random", "random", "bursts"}).Draw(t, "schedule")
		remaining := make([]int, n)
		total := 0
		for i, s := range c.ss {
			remaining[i] = len(s.ops)
			total += len(s.ops)
		}
		switch mode {
		case "round-robin":
			for len(c.order) < total {
				for i := range remaining {
					if remaining[i] > 0 {
						remaining[i]--
						c.order = append(c.order, i)
					}
				}
			}
		default:
			for len(c.order) < total {
				var live []int
				for i, r := range remaining {
					if r > 0 {
						live = append(live, i)
					}
				}
				i := live[rapid.IntRange(0, len(live)-1).Draw(t, "next")]
				k := 1
				if mode == "bursts" {
					k = rapid.IntRange(1, 4).Draw(t, "burst")
				}
				for ; k > 0 && remaining[i] > 0; k-- {
					remaining[i]--
					c.order = append(c.order, i)
				}
			}
		}
		if rapid.IntRange(0, 3).Draw(t, "nest?") > 0 {
			c.gaps = rapid.SliceOfN(rapid.IntRange(1, 12), 1, 24).Draw(t, "nestgaps")
		}
		order := append([]int(nil), c.order...)

		msg := guard(c.run)
		tcpQuiesce()
		hx.Eval()
		classCase("interleaved", tps, use)
		hx.Class(fmt.Sprintf("interleaved/schedule=%s/nested=%v/handoff=%v", mode, c.nested > 0, c.handoffs > 0))
		describe := func() string {
			var b strings.Builder
			for i := range use {
				fmt.Fprintf(&b, "  session %d: %s\n", base+ids[i], describeTemplate(tps[use[i]]))
			}
			fmt.Fprintf(&b, "  executed (\">\" = inside a transport call of the step above): %s", strings.Join(c.trace, " "))
			return b.String()
		}
		if msg != "" {
			t.Fatalf("interleaved run panics: %s\n%s", msg, describe())
		}
		for i, s := range c.ss {
			if at, w, g := diff(solo[i], s.tr); at >= 0 {
				t.Fatalf("session %d observes something else than when run alone:\n  alone:       %s\n  interleaved: %s\n%s", s.id, clip(w, 1500), clip(g, 1500), describe())
			}
		}
		if m := checkShared(); m != "" {
			t.Fatalf("after the interleaved run: %s\n%s", m, describe())
		}
		if c.handoffs > 0 {
			var shape []string
			for i := range use {
				shape = append(shape, describeTemplate(tps[use[i]]))
			}
			hx.NonTrivial(hx.Hash("interleaved", strings.Join(shape, "|"), fmt.Sprint(order), fmt.Sprint(c.gaps)), func() interface{} {
				return map[string]interface{}{"layer": "interleaved", "sessions": shape, "schedule": mode, "steps": strings.Join(c.trace, " "),
					"handoffs": c.handoffs, "nested_steps": c.nested}
			})
		}
	})
}

// ---------------------------------------------------------------------------
// layer 2: real goroutines

// concurrentFailure is the message of the first layer-2 failure of this process.
var concurrentFailure string

func failConcurrent(t *rapid.T, format string, args ...interface{}) {
	concurrentFailure = fmt.Sprintf(format, args...)
	t.Fatalf("%s", concurrentFailure)
}

func rapidSeed() string {
	if f := flag.Lookup("rapid.seed"); f != nil {
		return f.Value.String()
	}
	return "?"
}

func TestConcurrentSessions(t *testing.T) {
	prevProcs := runtime.GOMAXPROCS(0)
	defer runtime.GOMAXPROCS(prevProcs)
	caseIdx := 0
	// case counts: quick 75 (main) / 12 (race); thorough 600 per shard (main) / 120 (race)
	weight := float64(hx.Pick(25, 15)) / 100
	if os.Getenv("VERIF_VARIANT") == "race" {
		weight = float64(hx.Pick(40, 30)) / 100 // the variant's base count is a tenth of the main one
	}
	hx.Check(t, weight, func(t *rapid.T) {
		caseIdx++
		procs := rapid.SampledFrom([]int{2, 4, 16}).Draw(t, "gomaxprocs")
		tcpCaseStart()
		tps := drawTemplates(t, 6, true)
		n := rapid.IntRange(50, 500).Draw(t, "sessions")
		mix := rapid.SliceOfN(rapid.IntRange(0, len(tps)-1), 1, 12).Draw(t, "mix")
		base := rapid.IntRange(0, 1000).Draw(t, "idbase")
		use := make([]int, n)
		for i := range use {
			use[i] = mix[i%len(mix)]
		}
		describe := func() string {
			var b strings.Builder
			fmt.Fprintf(&b, "  rapid seed %s (VERIF_SEED_EFFECTIVE=%s), case #%d of this run, GOMAXPROCS=%d, %d sessions with ids %d.., template of session i = mix[i %% %d], mix=%v\n",
				rapidSeed(), os.Getenv("VERIF_SEED_EFFECTIVE"), caseIdx, procs, n, base+1, len(mix), mix)
			for k, tp := range tps {
				fmt.Fprintf(&b, "  template %d: %s\n", k, describeTemplate(tp))
			}
			b.WriteString("  (the schedule is the Go scheduler's; a re-run may need several attempts to reproduce)")
			return b.String()
		}

		if concurrentFailure != "" {
			// a failure of this layer is not shrinkable: the sessions are not run
			// again for rapid's shrink attempts (which would only multiply race reports)
			t.Fatalf("(first failure of this run, not re-executed while shrinking) %s", concurrentFailure)
		}
		solo := make([][]string, n)
		for i := range use {
			id := base + 1 + i
			if msg := guard(func() { solo[i] = runSolo(id, &tps[use[i]]) }); msg != "" {
				failConcurrent(t, "session %d (%s) run alone panics: %s", id, describeTemplate(tps[use[i]]), msg)
			}
			if b := broken(solo[i]); b != "" {
				failConcurrent(t, "session %d (%s) run alone does not get what its peer sent: %s", id, describeTemplate(tps[use[i]]), b)
			}
		}

		runtime.GOMAXPROCS(procs)
		ss := make([]*session, n)
		env := newEnv() // first used inside the concurrent phase
		var inflight, overlapped int32
		var wg sync.WaitGroup
		start := make(chan struct{})
		for i := range use {
			s := newSession(base+1+i, &tps[use[i]])
			s.env = env
			if y := s.tpl.Yield; y > 0 {
				cnt := 0
				s.io = func() {
					cnt++
					if cnt%y == 0 {
						runtime.Gosched()
					}
				}
			}
			ss[i] = s
			wg.Add(1)
			go func() {
				defer wg.Done()
				<-start
				s.panicked = guard(func() {
					for !s.done() {
						if atomic.AddInt32(&inflight, 1) >= 2 {
							s.overlap = true
						}
						s.step()
						if atomic.AddInt32(&inflight, -1) >= 1 {
							s.overlap = true
						}
					}
				})
				if s.overlap {
					atomic.AddInt32(&overlapped, 1)
				}
			}()
		}
		close(start)
		wg.Wait() // every goroutine of the case has ended here
		tcpQuiesce()
		runtime.GOMAXPROCS(prevProcs)

		hx.Eval()
		classCase("concurrent", tps, mix)
		hx.Class(fmt.Sprintf("concurrent/gomaxprocs=%d/overlap=%v", procs, overlapped >= 2))
		var bad []string
		for i, s := range ss {
			if s.panicked != "" {
				bad = append(bad, fmt.Sprintf("session %d (template %d) panics: %s", s.id, use[i], s.panicked))
			} else if at, w, g := diff(solo[i], s.tr); at >= 0 {
				bad = append(bad, fmt.Sprintf("session %d (template %d) observes something else than when run alone:\n    alone:      %s\n    concurrent: %s", s.id, use[i], clip(w, 1200), clip(g, 1200)))
			}
		}
		if len(bad) > 0 {
			sort.Strings(bad)
			more := ""
			if len(bad) > 3 {
				more = fmt.Sprintf("\n  … and %d more sessions", len(bad)-3)
				bad = bad[:3]
			}
			failConcurrent(t, "%d concurrent sessions, interference:\n  %s%s\n%s", n, strings.Join(bad, "\n  "), more, describe())
		}
		if m := checkShared(); m != "" {
			failConcurrent(t, "after %d concurrent sessions: %s\n%s", n, m, describe())
		}
		if overlapped >= 2 {
			var shape []string
			for _, tp := range tps {
				shape = append(shape, describeTemplate(tp))
			}
			hx.NonTrivial(hx.Hash("concurrent", strings.Join(shape, "|"), fmt.Sprint(mix), n, procs), func() interface{} {
				return map[string]interface{}{"layer": "concurrent", "gomaxprocs": procs, "sessions": n, "overlapping_sessions": overlapped, "templates": shape, "mix": mix}
			})
		}
	})
}
