// Package gen holds rapid generators shared by the property packages.
package gen

import (
	"pgregory.net/rapid"
)

// Chunks draws a transport chunk plan for tx.Src: nil (unchunked), a constant
// small size, or a short list of random sizes.
func Chunks(t *rapid.T, label string) []int {
	switch rapid.IntRange(0, 7).Draw(t, label+".kind") {
	case 0:
		return nil
	case 1:
		return []int{1}
	case 2:
		return []int{2}
	case 3:
		return []int{3}
	case 4:
		return []int{7}
	default:
		return rapid.SliceOfN(rapid.IntRange(1, 40), 1, 12).Draw(t, label+".sizes")
	}
}

// SmallChunk reports whether the plan contains a chunk smaller than 8 bytes.
func SmallChunk(sizes []int) bool {
	for _, s := range sizes {
		if s < 8 {
			return true
		}
	}
	return false
}

// ChunkClass names the plan for shape hashing.
func ChunkClass(sizes []int) string {
	switch {
	case len(sizes) == 0:
		return "all"
	case len(sizes) == 1 && sizes[0] == 1:
		return "1"
	case len(sizes) == 1:
		return "const"
	case SmallChunk(sizes):
		return "mixed-small"
	}
	return "mixed"
}

// Bytes draws a byte string of length 0..max with a bias towards short ones.
func Bytes(t *rapid.T, label string, max int) []byte {
	return rapid.SliceOfN(rapid.Byte(), 0, max).Draw(t, label)
}

// Filled returns n bytes b, b+1, … (cheap recognisable payloads for large sizes).
func Filled(n int, b byte) []byte {
	p := make([]byte, n)
	for i := range p {
		p[i] = b + byte(i)
	}
	return p
}

// Key draws a 4-byte masking key, with zero and repeated-byte keys likely.
func Key(t *rapid.T, label string) (k [4]byte) {
	switch rapid.IntRange(0, 5).Draw(t, label+".kind") {
	case 0:
		return k
	case 1:
		b := rapid.Byte().Draw(t, label+".b")
		return [4]byte{b, b, b, b}
	}
	for i := range k {
		k[i] = rapid.Byte().Draw(t, label)
	}
	return k
}

// LenBoundaries are the payload lengths around every length-form edge.
var LenBoundaries = []int64{0, 1, 124, 125, 126, 127, 128, 65534, 65535, 65536, 65537,
	1<<31 - 1, 1 << 31, 1<<32 - 1, 1 << 32, 1 << 62, 1<<63 - 1}

// Length draws a frame length in [0, 2^63-1]: a boundary value or a
// bit-length-stratified value, so every length form and its edges come up.
func Length(t *rapid.T, label string) int64 {
	if rapid.Bool().Draw(t, label+".boundary") {
		return rapid.SampledFrom(LenBoundaries).Draw(t, label+".b")
	}
	k := rapid.IntRange(0, 63).Draw(t, label+".bits")
	if k == 0 {
		return 0
	}
	lo := int64(1) << uint(k-1)
	hi := lo<<1 - 1
	if k == 63 {
		hi = 1<<63 - 1
	}
	return rapid.Int64Range(lo, hi).Draw(t, label+".v")
}

// Split cuts b into 1..max consecutive pieces at drawn points (pieces may be empty).
func Split(t *rapid.T, label string, b []byte, max int) [][]byte {
	n := rapid.IntRange(1, max).Draw(t, label+".n")
	if n == 1 {
		return [][]byte{b}
	}
	cuts := make([]int, n-1)
	for i := range cuts {
		cuts[i] = rapid.IntRange(0, len(b)).Draw(t, label+".cut")
	}
	// insertion sort
	for i := 1; i < len(cuts); i++ {
		for j := i; j > 0 && cuts[j-1] > cuts[j]; j-- {
			cuts[j-1], cuts[j] = cuts[j], cuts[j-1]
		}
	}
	out := make([][]byte, 0, n)
	prev := 0
	for _, c := range cuts {
		out = append(out, b[prev:c])
		prev = c
	}
	return append(out, b[prev:])
}
