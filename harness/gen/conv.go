package gen

import (
	"pgregory.net/rapid"

	"verif/harness/ref"
)

// ConvOpts configures Conversation.
type ConvOpts struct {
	Masked     bool // frames carry a mask (the receiver is a server)
	MaxMsgs    int  // 1..MaxMsgs data messages (default 4)
	MaxPayload int  // payload of a message 0..MaxPayload (default 300)
	Big        bool // occasionally one message of ~66-70 KB (crosses the 16-bit length form)
	Close      bool // may end with a close frame
	NoCtl      bool // no control frames at all
	// Text, if set, produces the payload of text messages (default: valid UTF-8 from a small alphabet).
	Text func(t *rapid.T, label string, max int) []byte

	// fixedKey, when set by Conversation, masks every frame with the same key
	// (a peer may reuse its masking key; the reader must restart the key phase per frame).
	fixedKey *[4]byte
}

var utf8Alphabet = []string{"a", "b", "z", " ", "é", "ß", "€", "漢", "😀", "߿", "ࠀ", "￿", "\U00010000", "\U0010ffff"}

// ValidText draws a valid UTF-8 byte string of at most max bytes.
func ValidText(t *rapid.T, label string, max int) []byte {
	n := rapid.IntRange(0, max).Draw(t, label+".n")
	var b []byte
	for len(b) < n {
		s := rapid.SampledFrom(utf8Alphabet).Draw(t, label+".r")
		if len(b)+len(s) > max {
			break
		}
		b = append(b, s...)
	}
	return b
}

// CtlFrame draws a ping or pong with a 0..125 byte payload.
func CtlFrame(t *rapid.T, label string, masked bool) ref.Frame {
	op := byte(ref.OpPing)
	if rapid.Bool().Draw(t, label+".pong") {
		op = ref.OpPong
	}
	var n int
	switch rapid.IntRange(0, 3).Draw(t, label+".lenkind") {
	case 0:
		n = 0
	case 1:
		n = rapid.IntRange(1, 10).Draw(t, label+".len")
	case 2:
		n = rapid.IntRange(120, 125).Draw(t, label+".len")
	default:
		n = rapid.IntRange(0, 125).Draw(t, label+".len")
	}
	p := rapid.SliceOfN(rapid.Byte(), n, n).Draw(t, label+".payload")
	return frame(t, label, op, true, masked, p)
}

func frame(t *rapid.T, label string, op byte, fin, masked bool, p []byte) ref.Frame {
	return frameK(t, label, op, fin, masked, p, nil)
}

func frameK(t *rapid.T, label string, op byte, fin, masked bool, p []byte, fixed *[4]byte) ref.Frame {
	h := ref.Header{Fin: fin, Op: op, Masked: masked}
	if masked {
		if fixed != nil {
			h.Mask = *fixed
		} else {
			h.Mask = Key(t, label+".key")
		}
	}
	return ref.Frame{H: h, Payload: p}
}

// CloseFrame draws a close frame: empty, or a must-accept code with a valid reason.
func CloseFrame(t *rapid.T, label string, masked bool) ref.Frame {
	var p []byte
	if rapid.Bool().Draw(t, label+".withcode") {
		code := rapid.SampledFrom([]int{1000, 1001, 1002, 1003, 1007, 1008, 1009, 1010, 1011, 3000, 3999, 4000, 4999}).Draw(t, label+".code")
		p = []byte{byte(code >> 8), byte(code)}
		p = append(p, ValidText(t, label+".reason", 40)...)
	}
	return frame(t, label, ref.OpClose, true, masked, p)
}

// Message draws one data message split into fragments, with control frames
// interleaved between the fragments.
func Message(t *rapid.T, label string, o ConvOpts, big bool) []ref.Frame {
	op := byte(ref.OpBinary)
	if rapid.Bool().Draw(t, label+".text") {
		op = ref.OpText
	}
	max := o.MaxPayload
	if max == 0 {
		max = 300
	}
	var payload []byte
	switch {
	case big:
		n := rapid.IntRange(65500, 70000).Draw(t, label+".bign")
		if op == ref.OpText {
			payload = make([]byte, n)
			for i := range payload {
				payload[i] = byte('a' + i%26)
			}
		} else {
			payload = Filled(n, rapid.Byte().Draw(t, label+".fill"))
		}
	case op == ref.OpText:
		text := o.Text
		if text == nil {
			text = ValidText
		}
		payload = text(t, label+".payload", max)
	default:
		payload = rapid.SliceOfN(rapid.Byte(), 0, max).Draw(t, label+".payload")
	}
	parts := Split(t, label+".split", payload, 6)
	var fs []ref.Frame
	for i, p := range parts {
		fop := op
		if i > 0 {
			fop = ref.OpCont
		}
		fs = append(fs, frameK(t, label+".frag", fop, i == len(parts)-1, o.Masked, p, o.fixedKey))
		if i < len(parts)-1 && !o.NoCtl {
			for k := rapid.IntRange(0, 2).Draw(t, label+".nctl"); k > 0 && rapid.IntRange(0, 2).Draw(t, label+".ctl?") == 0; k-- {
				fs = append(fs, CtlFrame(t, label+".ictl", o.Masked))
			}
		}
	}
	return fs
}

// Conversation draws a valid, complete conversation.
func Conversation(t *rapid.T, label string, o ConvOpts) []ref.Frame {
	maxMsgs := o.MaxMsgs
	if maxMsgs == 0 {
		maxMsgs = 4
	}
	n := rapid.IntRange(1, maxMsgs).Draw(t, label+".msgs")
	if o.Masked && rapid.IntRange(0, 3).Draw(t, label+".samekey") == 0 {
		k := [4]byte{rapid.Byte().Draw(t, label+".k0"), rapid.Byte().Draw(t, label+".k1"), rapid.Byte().Draw(t, label+".k2"), rapid.Byte().Draw(t, label+".k3")}
		if k[0] == k[1] && k[1] == k[2] && k[2] == k[3] {
			k[1] ^= 0x55
			k[3] ^= 0xa7
		}
		o.fixedKey = &k
	}
	bigAt := -1
	if o.Big && rapid.IntRange(0, 7).Draw(t, label+".big?") == 0 {
		bigAt = rapid.IntRange(0, n-1).Draw(t, label+".bigat")
	}
	var fs []ref.Frame
	for i := 0; i < n; i++ {
		if !o.NoCtl && rapid.IntRange(0, 3).Draw(t, label+".pre?") == 0 {
			fs = append(fs, CtlFrame(t, label+".tctl", o.Masked))
		}
		fs = append(fs, Message(t, label+".m", o, i == bigAt)...)
	}
	if !o.NoCtl && rapid.IntRange(0, 3).Draw(t, label+".post?") == 0 {
		fs = append(fs, CtlFrame(t, label+".tctl", o.Masked))
	}
	if o.Close && rapid.Bool().Draw(t, label+".close?") {
		fs = append(fs, CloseFrame(t, label+".close", o.Masked))
	}
	return fs
}
