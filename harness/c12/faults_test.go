// C12 — frame helpers when compression / decompression or the caller's buffer
// fails: an error, never a frame with a wrong payload.
package c12

import (
	"bytes"
	"compress/flate"
	"fmt"
	"io"
	"testing"

	"github.com/gobwas/ws"
	"github.com/gobwas/ws/wsflate"
	"pgregory.net/rapid"

	"verif/harness/hx"
	"verif/harness/tx"
)

// failingCompressor is compress/flate whose failAt-th call (Write, Flush and
// Close counted together) returns an error.
type failingCompressor struct {
	fw     *flate.Writer
	calls  int
	failAt int
}

func (f *failingCompressor) hit() bool { f.calls++; return f.calls-1 == f.failAt }
func (f *failingCompressor) Write(p []byte) (int, error) {
	if f.hit() {
		return 0, tx.ErrInjected
	}
	return f.fw.Write(p)
}
func (f *failingCompressor) Flush() error {
	if f.hit() {
		return tx.ErrInjected
	}
	return f.fw.Flush()
}
func (f *failingCompressor) Close() error {
	if f.hit() {
		return tx.ErrInjected
	}
	return f.fw.Close()
}

// failBuf is a wsflate.Buffer whose failAt-th Write fails after taking `take` bytes.
type failBuf struct {
	b      []byte
	calls  int
	failAt int
	take   int
	failed bool
}

func (f *failBuf) Write(p []byte) (int, error) {
	i := f.calls
	f.calls++
	if i == f.failAt {
		f.failed = true
		n := f.take
		if n > len(p) {
			n = len(p)
		}
		f.b = append(f.b, p[:n]...)
		return n, tx.ErrInjected
	}
	f.b = append(f.b, p...)
	return len(p), nil
}
func (f *failBuf) Bytes() []byte { return f.b }

// failingReader delivers n bytes of the inflated stream, then an error.
type failingReader struct {
	r io.Reader
	n int
}

func (f *failingReader) Read(p []byte) (int, error) {
	if f.n <= 0 {
		return 0, tx.ErrInjected
	}
	if len(p) > f.n {
		p = p[:f.n]
	}
	n, err := f.r.Read(p)
	f.n -= n
	if err == io.EOF {
		err = tx.ErrInjected
	}
	return n, err
}

func TestFrameHelpersFaults(t *testing.T) {
	hx.Check(t, 1.5, func(t *rapid.T) {
		class, payload := genPayload(t, false)
		level := genLevel(t, "level")
		opc := rapid.SampledFrom([]ws.OpCode{ws.OpText, ws.OpBinary}).Draw(t, "op")
		in := ws.NewFrame(opc, true, append([]byte(nil), payload...))
		kind := rapid.SampledFrom([]string{"bad-compressor", "bad-compressor", "failing-compressor", "failing-buffer", "decompress/failing-buffer", "decompress/failing-decompressor"}).Draw(t, "kind")
		hx.Eval()
		hx.Class("faults/kind=" + kind)

		// a correct compressed frame (independent encoder) for the decompress side
		good := func() ws.Frame {
			var b bytes.Buffer
			fw, _ := flate.NewWriter(&b, level)
			fw.Write(payload)
			fw.Flush()
			f := ws.NewFrame(opc, true, append([]byte(nil), b.Bytes()[:b.Len()-4]...))
			f.Header.Rsv = 0x4
			return f
		}
		// judgeCompressed: a helper that reported success must have produced the message
		judgeCompressed := func(api string, cf ws.Frame, err error, undetectable func() bool, what string) {
			if err != nil {
				hx.Class("faults/compress=error-reported")
				return
			}
			got, msg := inflateLoose(cf.Payload)
			if msg == nil && bytes.Equal(got, payload) && cf.Header.Rsv&0x4 != 0 && cf.Header.Length == int64(len(cf.Payload)) {
				hx.Class("faults/compress=fault-not-reached-or-harmless")
				return
			}
			if undetectable != nil && undetectable() {
				hx.Class("open/bad-compressor-output-ends-in-tail")
				return
			}
			t.Fatalf("%s with %s returned a nil error and frame %s payload %s for the %d-byte message %s: payload ++ 0000ffff inflates to %s (%v)",
				api, what, hdrString(cf.Header), short(cf.Payload), len(payload), short(payload), short(got), msg)
		}

		switch kind {
		case "bad-compressor", "failing-compressor":
			var em *emission
			var what string
			var undetectable func() bool
			h := wsflate.Helper{Decompressor: flateDtor}
			if kind == "bad-compressor" {
				mode := rapid.SampledFrom([]string{"noop", "passthrough", "append", "truncate", "tiny"}).Draw(t, "mode")
				extra := rapid.SampledFrom([][]byte{{0}, {0xff}, {0, 0, 0xff}, {1, 2, 3, 4, 5}}).Draw(t, "extra")
				drop := rapid.IntRange(1, 5).Draw(t, "drop")
				what = fmt.Sprintf("a compressor misbehaving as %q (extra %x, drop %d)", mode, extra, drop)
				h.Compressor = func(w io.Writer) wsflate.Compressor {
					em = &emission{w: w}
					bc := &badCompressor{mode: mode, out: em, extra: extra, drop: drop}
					bc.fw, _ = flate.NewWriter(&bc.stage, level)
					return bc
				}
				undetectable = func() bool { return bytes.HasSuffix(em.all, tail) }
			} else {
				failAt := rapid.IntRange(0, 3).Draw(t, "fail-at")
				what = fmt.Sprintf("a compressor whose call %d (Write, Flush, Close counted) fails", failAt)
				h.Compressor = func(w io.Writer) wsflate.Compressor {
					fw, _ := flate.NewWriter(w, level)
					return &failingCompressor{fw: fw, failAt: failAt}
				}
			}
			hx.NonTrivial(hx.Hash("faults", what, class, len(payload), level), func() interface{} {
				return map[string]interface{}{"test": "frame-helper-faults", "fault": what, "payload_class": class, "payload_len": len(payload)}
			})
			switch rapid.IntRange(0, 3).Draw(t, "api") {
			case 0:
				cf, err := h.CompressFrame(in)
				judgeCompressed("Helper.CompressFrame", cf, err, undetectable, what)
			case 1:
				var b bytes.Buffer
				cf, err := h.CompressFrameBuffer(&b, in)
				judgeCompressed("Helper.CompressFrameBuffer", cf, err, undetectable, what)
			case 2:
				p, err := h.Compress(payload)
				cf := ws.Frame{Header: ws.Header{Rsv: 0x4, Length: int64(len(p))}, Payload: p}
				judgeCompressed("Helper.Compress", cf, err, undetectable, what)
			default:
				var g growBuf
				err := h.CompressTo(&g, payload)
				cf := ws.Frame{Header: ws.Header{Rsv: 0x4, Length: int64(len(g.b))}, Payload: g.b}
				judgeCompressed("Helper.CompressTo", cf, err, undetectable, what)
			}

		case "failing-buffer":
			fb := &failBuf{failAt: rapid.IntRange(0, 3).Draw(t, "fail-at"), take: rapid.IntRange(0, 3).Draw(t, "take")}
			what := fmt.Sprintf("a Buffer whose Write %d fails after %d bytes", fb.failAt, fb.take)
			var cf ws.Frame
			var err error
			if rapid.Bool().Draw(t, "default-helper") {
				cf, err = wsflate.CompressFrameBuffer(fb, in)
			} else {
				h := wsflate.Helper{Compressor: flateCtor(level), Decompressor: flateDtor}
				cf, err = h.CompressFrameBuffer(fb, in)
			}
			if fb.failed && err == nil {
				hx.Class("faults/buffer-failure-unreported")
			}
			judgeCompressed("CompressFrameBuffer", cf, err, nil, what)

		case "decompress/failing-buffer":
			fb := &failBuf{failAt: rapid.IntRange(0, 2).Draw(t, "fail-at"), take: rapid.IntRange(0, 3).Draw(t, "take")}
			df, err := wsflate.DecompressFrameBuffer(fb, good())
			switch {
			case err != nil:
				hx.Class("faults/decompress=error-reported")
			case bytes.Equal(df.Payload, payload) && df.Header.Length == int64(len(payload)):
				hx.Class("faults/decompress=fault-not-reached")
			default:
				t.Fatalf("DecompressFrameBuffer with a Buffer whose Write %d fails after %d bytes returned a nil error and %d payload bytes (Length %d) for the %d-byte message", fb.failAt, fb.take, len(df.Payload), df.Header.Length, len(payload))
			}

		default: // decompress/failing-decompressor
			n := rapid.IntRange(0, len(payload)).Draw(t, "deliver")
			h := wsflate.Helper{Compressor: flateCtor(level), Decompressor: func(r io.Reader) wsflate.Decompressor {
				return &failingReader{r: flate.NewReader(r), n: n}
			}}
			var got []byte
			var err error
			var api string
			switch rapid.IntRange(0, 2).Draw(t, "api") {
			case 0:
				api = "Helper.DecompressFrame"
				var df ws.Frame
				df, err = h.DecompressFrame(good())
				got = df.Payload
			case 1:
				api = "Helper.Decompress"
				got, err = h.Decompress(good().Payload)
			default:
				api = "Helper.DecompressTo"
				var g growBuf
				err = h.DecompressTo(&g, good().Payload)
				got = g.b
			}
			if err == nil {
				t.Fatalf("%s with a decompressor that fails after %d of %d bytes returned a nil error (and %d bytes)", api, n, len(payload), len(got))
			}
			hx.Class("faults/decompress=error-reported")
		}
	})
}
