// C12, thorough tier only: the same round-trip claims against zlib (through a
// python3 child), an implementation that shares no code with compress/flate
// and makes different block choices (stored blocks, dynamic/fixed Huffman,
// window sizes 9..15, Z_SYNC_FLUSH / Z_FULL_FLUSH / Z_FINISH).
package c12

import (
	"bufio"
	"bytes"
	"encoding/hex"
	"encoding/json"
	"fmt"
	"io"
	"os/exec"
	"testing"

	"github.com/gobwas/ws"
	"github.com/gobwas/ws/wsflate"
	"pgregory.net/rapid"

	"verif/harness/gen"
	"verif/harness/hx"
	"verif/harness/tx"
)

const zlibScript = `
import sys, json, binascii
try:
    import zlib
except Exception as e:
    sys.stdout.write(json.dumps({"ready": False, "err": str(e)}) + "\n"); sys.stdout.flush(); sys.exit(0)
sys.stdout.write(json.dumps({"ready": True, "zlib": zlib.ZLIB_VERSION}) + "\n"); sys.stdout.flush()
FL = {"sync": zlib.Z_SYNC_FLUSH, "full": zlib.Z_FULL_FLUSH, "finish": zlib.Z_FINISH}
for line in sys.stdin:
    line = line.strip()
    if not line:
        continue
    try:
        q = json.loads(line)
        if q["op"] == "inflate":
            d = zlib.decompressobj(-15)
            try:
                out = d.decompress(binascii.unhexlify(q["hex"]))
                r = {"ok": True, "hex": binascii.hexlify(out).decode(), "eof": d.eof, "unused": len(d.unused_data)}
            except zlib.error as e:
                r = {"ok": False, "err": str(e)}
        elif q["op"] == "deflate":
            c = zlib.compressobj(q["level"], zlib.DEFLATED, -q["wbits"], q["memlevel"], q["strategy"])
            out = b""
            for part, fl in zip(q["parts"], q["flush"]):
                out += c.compress(binascii.unhexlify(part))
                if fl != "none":
                    out += c.flush(FL[fl])
            out += c.flush(FL[q["final"]])
            r = {"ok": True, "hex": binascii.hexlify(out).decode()}
        else:
            r = {"ok": False, "err": "unknown op"}
    except Exception as e:
        r = {"ok": False, "err": "script: " + repr(e), "script_error": True}
    sys.stdout.write(json.dumps(r) + "\n"); sys.stdout.flush()
`

type zlibChild struct {
	cmd     *exec.Cmd
	in      io.WriteCloser
	out     *bufio.Reader
	version string
}

type zlibReply struct {
	Ready       bool   `json:"ready"`
	Zlib        string `json:"zlib"`
	OK          bool   `json:"ok"`
	Hex         string `json:"hex"`
	Err         string `json:"err"`
	EOF         bool   `json:"eof"`
	Unused      int    `json:"unused"`
	ScriptError bool   `json:"script_error"`
}

// startZlib returns nil (and the reason) when python3 with zlib cannot be had.
func startZlib() (*zlibChild, string) {
	var path string
	for _, cand := range []string{"/usr/bin/python3", "python3"} {
		if p, err := exec.LookPath(cand); err == nil {
			path = p
			break
		}
	}
	if path == "" {
		return nil, "python3 not found"
	}
	cmd := exec.Command(path, "-u", "-c", zlibScript)
	in, err := cmd.StdinPipe()
	if err != nil {
		return nil, err.Error()
	}
	outp, err := cmd.StdoutPipe()
	if err != nil {
		return nil, err.Error()
	}
	if err := cmd.Start(); err != nil {
		return nil, err.Error()
	}
	c := &zlibChild{cmd: cmd, in: in, out: bufio.NewReaderSize(outp, 1<<20)}
	line, err := c.out.ReadBytes('\n')
	var r zlibReply
	if err != nil || json.Unmarshal(line, &r) != nil || !r.Ready {
		c.stop()
		return nil, fmt.Sprintf("python3 child did not come up with zlib: %v %s %s", err, bytes.TrimSpace(line), r.Err)
	}
	c.version = r.Zlib
	return c, ""
}

func (c *zlibChild) stop() {
	c.in.Close()
	c.cmd.Process.Kill()
	c.cmd.Wait()
}

// call sends one request; any transport or script problem is an infrastructure error.
func (c *zlibChild) call(req map[string]interface{}) (zlibReply, error) {
	var r zlibReply
	b, err := json.Marshal(req)
	if err != nil {
		return r, err
	}
	if _, err := c.in.Write(append(b, '\n')); err != nil {
		return r, fmt.Errorf("write to child: %v", err)
	}
	line, err := c.out.ReadBytes('\n')
	if err != nil {
		return r, fmt.Errorf("read from child: %v", err)
	}
	if err := json.Unmarshal(line, &r); err != nil {
		return r, fmt.Errorf("child answered %q: %v", bytes.TrimSpace(line), err)
	}
	if r.ScriptError {
		return r, fmt.Errorf("child script failed: %s", r.Err)
	}
	return r, nil
}

var zlibStrategies = []int{0, 1, 2, 3, 4} // default, filtered, huffman-only, rle, fixed

func TestZlibDifferential(t *testing.T) {
	if !hx.Thorough() {
		t.Skip("thorough tier only")
	}
	child, why := startZlib()
	if child == nil {
		hx.Class("zlib-differential/unavailable")
		t.Logf("zlib differential not run: %s", why)
		return
	}
	defer child.stop()
	t.Logf("python3 child with zlib %s", child.version)
	infra := func(t *rapid.T, err error) {
		t.Fatalf("VERIF-INFRA: zlib child: %v", err)
	}

	hx.Check(t, 3.6, func(t *rapid.T) {
		class, payload := genPayload(t, rapid.IntRange(0, 3).Draw(t, "allowbig") == 0)
		hx.Eval()
		hx.Class("zlib-differential/payload=" + class)

		// ---- (a) library writer -> zlib inflates
		pat := genPattern(t, payload)
		level := genLevel(t, "level")
		var plan *chunkPlan
		if rapid.Bool().Draw(t, "rechunk") {
			plan = genChunkPlan(t, "plan")
		}
		rec := tx.NewRec()
		w := wsflate.NewWriter(rec, rechunkCtor(level, plan))
		closed := false
		for i, o := range pat.Ops {
			var err error
			switch o.Kind {
			case 'w':
				_, err = w.Write(o.Data)
			case 'f':
				err = w.Flush()
			case 'c':
				err = w.Close()
				closed = true
			}
			if err != nil {
				t.Fatalf("op %d of %s: %v", i, pat, err)
			}
		}
		own := rec.Bytes()
		r, err := child.call(map[string]interface{}{"op": "inflate", "hex": hex.EncodeToString(append(append([]byte(nil), own...), tail...))})
		if err != nil {
			infra(t, err)
		}
		if !r.OK {
			t.Fatalf("%s level %d (output delivered as %v) payload %s(%d): zlib rejects destination %s ++ 0000ffff: %s", pat, level, plan, class, len(payload), short(own), r.Err)
		}
		got, herr := hex.DecodeString(r.Hex)
		if herr != nil {
			infra(t, herr)
		}
		if !bytes.Equal(got, payload) {
			t.Fatalf("%s level %d payload %s(%d): zlib inflates destination ++ 0000ffff to a different message: %s", pat, level, class, len(payload), firstDiff(got, payload))
		}
		if r.EOF != closed || r.Unused != 0 {
			t.Fatalf("%s level %d payload %s(%d): zlib saw final block=%v with %d bytes after it; the writer was closed=%v", pat, level, class, len(payload), r.EOF, r.Unused, closed)
		}

		// ---- (b) zlib compresses (fresh compressobj per message: no context takeover) -> library reads
		zl := rapid.IntRange(0, 9).Draw(t, "zlib.level")
		wbits := rapid.IntRange(9, 15).Draw(t, "zlib.wbits")
		mem := rapid.SampledFrom([]int{8, 9, 1, 4}).Draw(t, "zlib.memlevel")
		strat := rapid.SampledFrom(zlibStrategies).Draw(t, "zlib.strategy")
		final := rapid.SampledFrom([]string{"sync", "sync", "full", "finish"}).Draw(t, "zlib.final")
		pieces := gen.Split(t, "zlib.split", payload, 5)
		parts := make([]string, len(pieces))
		flushes := make([]string, len(pieces))
		nfl := 0
		for i, p := range pieces {
			parts[i] = hex.EncodeToString(p)
			flushes[i] = rapid.SampledFrom([]string{"none", "none", "sync", "full"}).Draw(t, "zlib.flush")
			if flushes[i] != "none" {
				nfl++
			}
		}
		hx.Class(fmt.Sprintf("zlib-differential/deflate/level=%d", zl))
		hx.Class(fmt.Sprintf("zlib-differential/deflate/final=%s", final))
		r, err = child.call(map[string]interface{}{"op": "deflate", "level": zl, "wbits": wbits, "memlevel": mem, "strategy": strat,
			"parts": parts, "flush": flushes, "final": final})
		if err != nil {
			infra(t, err)
		}
		if !r.OK {
			infra(t, fmt.Errorf("deflate refused: %s", r.Err))
		}
		zb, herr := hex.DecodeString(r.Hex)
		if herr != nil {
			infra(t, herr)
		}
		if final != "finish" {
			if !bytes.HasSuffix(zb, tail) {
				infra(t, fmt.Errorf("zlib %s-flushed output does not end in 0000ffff: %s", final, short(zb)))
			}
			zb = zb[:len(zb)-4] // RFC 7692 §7.2.1
		}
		desc := fmt.Sprintf("zlib(level=%d wbits=%d memlevel=%d strategy=%d flushes=%v final=%s) output %s for payload %s(%d)", zl, wbits, mem, strat, flushes, final, short(zb), class, len(payload))
		if len(payload) > 0 {
			hx.NonTrivial(hx.Hash("zlib", class, len(payload), zl, wbits, mem, strat, fmt.Sprint(flushes), final, pat.String(), level), func() interface{} {
				return map[string]interface{}{"test": "zlib-differential", "payload_class": class, "payload_len": len(payload), "zlib": fmt.Sprintf("level=%d wbits=%d memlevel=%d strategy=%d flushes=%v final=%s", zl, wbits, mem, strat, flushes, final), "writer_ops": pat.String(), "writer_level": level}
			})
		}
		splan := genSrcPlan(t, "src")
		got, msg := decompress(zb, splan)
		if msg != "" {
			t.Fatalf("%s served as %+v: %s", desc, splan, msg)
		}
		if !bytes.Equal(got, payload) {
			t.Fatalf("%s served as %+v: wsflate.Reader recovered a different message: %s", desc, splan, firstDiff(got, payload))
		}
		p, derr := wsflate.DefaultHelper.Decompress(zb)
		if derr != nil || !bytes.Equal(p, payload) {
			t.Fatalf("%s: Helper.Decompress: err=%v, %s", desc, derr, firstDiff(p, payload))
		}
		f := ws.NewFrame(ws.OpBinary, true, append([]byte(nil), zb...))
		f.Header.Rsv = 0x4
		df, derr := wsflate.DecompressFrame(f)
		if derr != nil || !bytes.Equal(df.Payload, payload) || df.Header != ws.NewFrame(ws.OpBinary, true, payload).Header {
			t.Fatalf("%s: DecompressFrame: err=%v header %s, %s", desc, derr, hdrString(df.Header), firstDiff(df.Payload, payload))
		}
	})
}
