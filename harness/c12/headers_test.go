// C12 — frame helpers over the whole header space: Rsv 0..7, every opcode, Fin.
package c12

import (
	"bytes"
	"compress/flate"
	"fmt"
	"io"
	"testing"

	"github.com/gobwas/ws"
	"github.com/gobwas/ws/wsflate"
	"pgregory.net/rapid"

	"verif/harness/hx"
)

// TestKnownFindings: dedicated probes of the defects this package has a signature for.
func TestKnownFindings(t *testing.T) {
	// (1) io.ByteReader source + a decompressor that reads through ReadByte
	var b bytes.Buffer
	fw, _ := flate.NewWriter(&b, 6)
	fw.Write([]byte("Hello"))
	fw.Flush()
	comp := b.Bytes()[:b.Len()-4]
	rd := wsflate.NewReader(bytes.NewReader(comp), dtorFor(3))
	p, err := io.ReadAll(rd)
	hx.Probe(t, sigReadByteEOF,
		fmt.Sprintf("wsflate.Reader over a bytes.Reader holding %x (\"Hello\", sync-flushed, tail stripped) with a decompressor that reads through the offered ReadByte: got %q, %v; want \"Hello\", nil (suffixedReader.ReadByte returns (0, nil) at the source's EOF, a byte that is not in the stream)", comp, p, err),
		err != nil || string(p) != "Hello", map[string]interface{}{"compressed_hex": fmt.Sprintf("%x", comp), "source": "bytes.Reader", "decompressor": "compress/flate fed through ReadByte only"})

	// (2) CompressFrame on a final control / continuation frame
	ping := ws.NewPingFrame([]byte("ping payload"))
	cf, cerr := wsflate.CompressFrame(ping)
	present := false
	if cerr == nil {
		back, derr := wsflate.DecompressFrame(cf)
		present = derr != nil || !bytes.Equal(back.Payload, ping.Payload) || back.Header != ping.Header
	}
	hx.Probe(t, sigHelperNonData,
		fmt.Sprintf("CompressFrame(final ping, payload %q) returns no error and a frame rsv=%d whose payload is DEFLATE data %x; DecompressFrame hands that back as is: the frame does not survive compress+decompress and is not refused", ping.Payload, cf.Header.Rsv, cf.Payload),
		present, map[string]interface{}{"frame": "final ping, 12-byte payload", "api": "wsflate.CompressFrame then DecompressFrame"})
}

func TestFrameHelpersHeaders(t *testing.T) {
	hx.Check(t, 2, func(t *rapid.T) {
		op := ws.OpCode(rapid.IntRange(0, 15).Draw(t, "op"))
		rsv := byte(rapid.IntRange(0, 7).Draw(t, "rsv"))
		fin := rapid.IntRange(0, 3).Draw(t, "fin") != 0
		payload := rapid.SliceOfN(rapid.Byte(), 0, 60).Draw(t, "payload")
		level := genLevel(t, "level")
		helper := wsflate.Helper{Compressor: flateCtor(level), Decompressor: flateDtor}
		api := rapid.IntRange(0, 3).Draw(t, "api")
		had := rsv&0x4 != 0
		kind := "reserved"
		switch op {
		case ws.OpText, ws.OpBinary:
			kind = "data"
		case ws.OpContinuation, ws.OpClose, ws.OpPing, ws.OpPong:
			kind = "cont/ctl"
		}
		hx.Eval()
		hx.Class(fmt.Sprintf("headers/%s/fin=%v/rsv1=%v", kind, fin, had))
		if kind == "data" {
			hx.NonTrivial(hx.Hash("headers", byte(op), rsv, fin, api, len(payload)), func() interface{} {
				return map[string]interface{}{"test": "frame-helper-headers", "op": byte(op), "rsv": rsv, "fin": fin, "api": api, "payload_len": len(payload)}
			})
		}

		// ---- compress
		in := ws.Frame{Header: ws.Header{Fin: fin, Rsv: rsv, OpCode: op, Length: int64(len(payload))}, Payload: append([]byte(nil), payload...)}
		var cf ws.Frame
		var err error
		var name string
		switch api {
		case 0:
			name = "wsflate.CompressFrame"
			cf, err = wsflate.CompressFrame(in)
		case 1:
			name = "wsflate.CompressFrameBuffer"
			var b bytes.Buffer
			cf, err = wsflate.CompressFrameBuffer(&b, in)
		case 2:
			name = "Helper.CompressFrame"
			cf, err = helper.CompressFrame(in)
		default:
			name = "Helper.CompressFrameBuffer"
			var g growBuf
			cf, err = helper.CompressFrameBuffer(&g, in)
		}
		switch {
		case !fin:
			if err == nil {
				t.Fatalf("%s accepted a non-final frame %s", name, hdrString(in.Header))
			}
		case kind == "data" && had:
			// SetBit: "returns non-nil error if compression bit has unexpected value": the frame is
			// already marked compressed; compressing it again under the one RSV1 cannot be undone by the peer
			if err == nil {
				t.Fatalf("%s accepted %s, which already carries RSV1, and returned %s with payload %s", name, hdrString(in.Header), hdrString(cf.Header), short(cf.Payload))
			}
		case kind == "data":
			want := in.Header
			want.Rsv |= 0x4
			want.Length = int64(len(cf.Payload))
			if err != nil || cf.Header != want {
				t.Fatalf("%s(%s) = %s, %v; want %s (RSV1 set, RSV2/RSV3 kept)", name, hdrString(in.Header), hdrString(cf.Header), err, hdrString(want))
			}
			if got, ierr := inflateLoose(cf.Payload); ierr != nil || !bytes.Equal(got, payload) {
				t.Fatalf("%s(%s): payload ++ 0000ffff does not inflate to the input: %v", name, hdrString(in.Header), ierr)
			}
		default:
			// continuation / control / reserved opcodes: "compress and decompress a frame to the same
			// header and payload" — the helper may refuse the frame, otherwise the pair must give it back
			if err != nil {
				hx.Class("headers/compress-non-data=refused")
				break
			}
			if hx.Known(sigHelperNonData) && cf.Header.Rsv&0x4 == 0 {
				hx.Exclude(sigHelperNonData)
				break
			}
			if cf.Header.Rsv&0x3 != rsv&0x3 {
				t.Fatalf("%s(%s) changed RSV2/RSV3: %s", name, hdrString(in.Header), hdrString(cf.Header))
			}
			back, derr := wsflate.DecompressFrame(cf)
			wantH := in.Header
			wantH.Rsv &^= 0x4
			if derr != nil || back.Header != wantH || !bytes.Equal(back.Payload, payload) {
				t.Fatalf("%s(%s, payload %s) returned no error and %s with payload %s; DecompressFrame of that gives %s payload %s err %v — the frame does not survive compress+decompress",
					name, hdrString(in.Header), short(payload), hdrString(cf.Header), short(cf.Payload), hdrString(back.Header), short(back.Payload), derr)
			}
			hx.Class("headers/compress-non-data=round-trips")
		}

		// ---- decompress: the payload is a compressed message when RSV1 says so, plain bytes otherwise
		body := payload
		if had {
			var b bytes.Buffer
			fw, _ := flate.NewWriter(&b, level)
			fw.Write(payload)
			fw.Flush()
			body = append([]byte(nil), b.Bytes()[:b.Len()-4]...)
		}
		din := ws.Frame{Header: ws.Header{Fin: fin, Rsv: rsv, OpCode: op, Length: int64(len(body))}, Payload: append([]byte(nil), body...)}
		var df ws.Frame
		switch api {
		case 0:
			name = "wsflate.DecompressFrame"
			df, err = wsflate.DecompressFrame(din)
		case 1:
			name = "wsflate.DecompressFrameBuffer"
			var b bytes.Buffer
			df, err = wsflate.DecompressFrameBuffer(&b, din)
		case 2:
			name = "Helper.DecompressFrame"
			df, err = helper.DecompressFrame(din)
		default:
			name = "Helper.DecompressFrameBuffer"
			var g growBuf
			df, err = helper.DecompressFrameBuffer(&g, din)
		}
		switch {
		case !fin:
			if err == nil {
				t.Fatalf("%s accepted a non-final frame %s", name, hdrString(din.Header))
			}
		case !had:
			if err != nil || df.Header != din.Header || !bytes.Equal(df.Payload, body) {
				t.Fatalf("%s of a frame without RSV1 (%s): got %s, %d payload bytes, err %v; want it back untouched", name, hdrString(din.Header), hdrString(df.Header), len(df.Payload), err)
			}
		case kind == "cont/ctl" || (kind == "reserved" && op.IsControl()):
			if err == nil {
				t.Fatalf("%s accepted RSV1 on a continuation/control frame %s", name, hdrString(din.Header))
			}
		case kind == "reserved":
			// reserved non-control opcode marked compressed: refuse it or decompress it correctly
			if err == nil && (!bytes.Equal(df.Payload, payload) || df.Header.Rsv != rsv&^0x4) {
				t.Fatalf("%s(%s) returned no error and %s with %d payload bytes for the %d-byte message", name, hdrString(din.Header), hdrString(df.Header), len(df.Payload), len(payload))
			}
		default:
			want := din.Header
			want.Rsv &^= 0x4
			want.Length = int64(len(payload))
			if err != nil || df.Header != want || !bytes.Equal(df.Payload, payload) {
				t.Fatalf("%s(%s) = %s, %d payload bytes, %v; want %s (RSV1 cleared, RSV2/RSV3 kept) and the %d-byte message", name, hdrString(din.Header), hdrString(df.Header), len(df.Payload), err, hdrString(want), len(payload))
			}
		}
	})
}
