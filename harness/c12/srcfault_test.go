// C12 — a source that fails in the middle of the compressed payload: the read
// ends in an error, never in a shorter "complete" message.
package c12

import (
	"bytes"
	"compress/flate"
	"errors"
	"fmt"
	"io"
	"testing"

	"github.com/gobwas/ws/wsflate"
	"pgregory.net/rapid"

	"verif/harness/gen"
	"verif/harness/hx"
	"verif/harness/tx"
)

// opError looks like *net.OpError: its own type, the cause reachable through Unwrap.
type opError struct{ Err error }

func (e *opError) Error() string { return "read tcp 10.0.0.1:80: " + e.Err.Error() }
func (e *opError) Unwrap() error { return e.Err }

var errCustom = errors.New("c12: connection reset by test")

func TestReaderSourceFaults(t *testing.T) {
	hx.Check(t, 2, func(t *rapid.T) {
		class, payload := genPayload(t, false)
		if len(payload) == 0 {
			payload = []byte("x")
		}
		level := genLevel(t, "level")
		// a message flushed more than once; bounds = positions just behind every inner sync marker
		var b bytes.Buffer
		fw, _ := flate.NewWriter(&b, level)
		var bounds []int
		pieces := gen.Split(t, "split", payload, 4)
		for i, p := range pieces {
			fw.Write(p)
			fw.Flush()
			if i < len(pieces)-1 {
				bounds = append(bounds, b.Len())
			}
		}
		compressed := append([]byte(nil), b.Bytes()[:b.Len()-4]...)

		var k int
		where := "random"
		if len(bounds) > 0 && rapid.IntRange(0, 2).Draw(t, "at-flush-point") != 0 {
			bd := rapid.SampledFrom(bounds).Draw(t, "flush-point")
			if rapid.Bool().Draw(t, "before-marker") {
				k, where = bd-4, "before-inner-sync-marker"
			} else {
				k, where = bd, "behind-inner-sync-marker"
			}
		} else {
			k = rapid.IntRange(0, len(compressed)-1).Draw(t, "cut")
		}
		if k >= len(compressed) {
			k = len(compressed) - 1
		}
		var srcErr error
		kind := rapid.SampledFrom([]string{"%w-wrapped io.EOF", "OpError{io.EOF}", "io.ErrUnexpectedEOF", "custom"}).Draw(t, "error")
		switch kind {
		case "%w-wrapped io.EOF":
			srcErr = fmt.Errorf("read tcp 10.0.0.1:80->10.0.0.2:9: %w", io.EOF)
		case "OpError{io.EOF}":
			srcErr = &opError{io.EOF}
		case "io.ErrUnexpectedEOF":
			srcErr = io.ErrUnexpectedEOF
		default:
			srcErr = errCustom
		}
		ts := tx.NewSrc(compressed[:k], gen.Chunks(t, "chunks"))
		ts.End = srcErr
		ts.EOFWithData = rapid.Bool().Draw(t, "error-with-data")
		var src io.Reader = ts
		byteReader := rapid.Bool().Draw(t, "bytereader")
		if byteReader {
			src = tx.ByteSrc{Src: ts}
		}
		hx.Eval()
		hx.Class("srcfault/cut=" + where)
		hx.Class("srcfault/error=" + kind)
		hx.NonTrivial(hx.Hash("srcfault", class, len(payload), level, where, k, kind, byteReader), func() interface{} {
			return map[string]interface{}{"test": "reader-source-fault", "payload_class": class, "payload_len": len(payload), "compressed_len": len(compressed), "cut": k, "cut_kind": where, "error": kind, "bytereader": byteReader}
		})

		rd := wsflate.NewReader(src, flateDtor)
		buf := make([]byte, rapid.SampledFrom([]int{1, 7, 512, 4096}).Draw(t, "readbuf"))
		var got []byte
		var err error
		for i := 0; ; i++ {
			var n int
			n, err = rd.Read(buf)
			got = append(got, buf[:n]...)
			if err != nil {
				break
			}
			if i > 1000000 {
				t.Fatalf("reader does not terminate")
			}
		}
		desc := fmt.Sprintf("payload %s(%d), compressed %d bytes with inner flush points %v, source fails after %d bytes (%s) with %q, bytereader=%v",
			class, len(payload), len(compressed), bounds, k, where, srcErr, byteReader)
		if err == io.EOF {
			t.Fatalf("%s: the read ended with io.EOF after %d of %d message bytes — a truncated message delivered as complete", desc, len(got), len(payload))
		}
		if !bytes.HasPrefix(payload, got) {
			t.Fatalf("%s: the %d bytes delivered before the error (%v) are not a prefix of the message", desc, len(got), err)
		}
		if errors.Is(err, srcErr) {
			hx.Class("srcfault/outcome=source-error-returned")
		} else {
			hx.Class("srcfault/outcome=other-error") // identity of the error is not promised
		}
	})
}
