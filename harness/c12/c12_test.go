// C12 — permessage-deflate payloads round-trip and interoperate with standard DEFLATE.
//
// Independent oracle: compress/flate of the standard library used *bare*
// (flate.NewReader over destination bytes ++ 00 00 ff ff, flate.NewWriter +
// Flush with the 4-byte tail stripped). wsflate contributes only the framing
// logic (tail withholding, tail check, read suffix, frame helpers), which is
// what is checked here.
package c12

import (
	"bufio"
	"bytes"
	"compress/flate"
	"fmt"
	"io"
	"testing"

	"github.com/gobwas/ws"
	"github.com/gobwas/ws/wsflate"
	"pgregory.net/rapid"

	"verif/harness/gen"
	"verif/harness/hx"
	"verif/harness/tx"
)

func TestMain(m *testing.M) { hx.Main(m, "C12") }

var (
	tail       = []byte{0x00, 0x00, 0xff, 0xff}
	finalBlock = []byte{0x01, 0x00, 0x00, 0xff, 0xff} // empty stored block with BFINAL=1
)

// ---------------------------------------------------------------------------
// payloads

// sm is a splitmix64 expander: large payloads are a deterministic function of
// a rapid-drawn seed (drawing 100 KiB byte by byte would only slow rapid down).
type sm uint64

func (s *sm) next() uint64 {
	*s += 0x9e3779b97f4a7c15
	z := uint64(*s)
	z = (z ^ (z >> 30)) * 0xbf58476d1ce4e5b9
	z = (z ^ (z >> 27)) * 0x94d049bb133111eb
	return z ^ (z >> 31)
}

func randomBytes(seed uint64, n int) []byte {
	s := sm(seed)
	p := make([]byte, n)
	for i := 0; i < n; i += 8 {
		v := s.next()
		for j := 0; j < 8 && i+j < n; j++ {
			p[i+j] = byte(v >> (8 * uint(j)))
		}
	}
	return p
}

var words = []string{"the", "of", "and", "websocket", "frame", "compress", "a", "to", "in", "message", "deflate",
	"payload", "ping", "é", "漢字", "😀", "0", "42", "{\"id\":", "\"value\"", "}", ",", ".", "\n", "  ", "hello"}

func textBytes(seed uint64, n int) []byte {
	s := sm(seed)
	p := make([]byte, 0, n+16)
	for len(p) < n {
		p = append(p, words[s.next()%uint64(len(words))]...)
		p = append(p, ' ')
	}
	return p[:n]
}

func repeatTo(unit []byte, n int) []byte {
	p := make([]byte, 0, n+len(unit))
	for len(p) < n {
		p = append(p, unit...)
	}
	return p[:n]
}

// rapid's integer generators favour small values, so class choices go through
// interleaved tables: the favoured low indexes already cover every cheap class.
var payloadClassTable = []string{
	"tiny", "text", "random", "repetitive", "empty", "tail-like", "text", "random",
	"tiny", "repetitive", "big", "text", "random", "tail-like", "tiny", "repetitive",
	"text", "random", "empty", "tiny", "text", "random", "repetitive", "big",
	"tail-like", "text", "random", "tiny", "repetitive", "text", "random", "tiny",
	"text", "random", "repetitive", "tiny", "text", "random", "repetitive", "big",
}

var levelTable = []int{9, -1, 1, 0, -2, 6, 2, 5, 3, 8, 4, 7}

func genLevel(t *rapid.T, label string) int {
	return levelTable[rapid.IntRange(0, len(levelTable)-1).Draw(t, label)]
}

// genPayload draws a message and the name of its class.
func genPayload(t *rapid.T, allowBig bool) (string, []byte) {
	k := payloadClassTable[rapid.IntRange(0, len(payloadClassTable)-1).Draw(t, "payload.class")]
	if k == "big" && !allowBig {
		k = "repetitive"
	}
	switch k {
	case "empty":
		return "empty", nil
	case "tiny":
		return "tiny", rapid.SliceOfN(rapid.Byte(), 1, 16).Draw(t, "payload.tiny")
	case "text":
		n := rapid.IntRange(17, 3000).Draw(t, "payload.n")
		return "text", textBytes(rapid.Uint64().Draw(t, "payload.seed"), n)
	case "random":
		n := rapid.IntRange(17, 4096).Draw(t, "payload.n")
		return "random", randomBytes(rapid.Uint64().Draw(t, "payload.seed"), n)
	case "tail-like":
		// bytes that look like deflate framing themselves
		n := rapid.IntRange(1, 12).Draw(t, "payload.n")
		var p []byte
		for i := 0; i < n; i++ {
			p = append(p, rapid.SampledFrom([][]byte{tail, finalBlock, {0}, {0xff}, {0, 0}, {0xff, 0xff}, {1}}).Draw(t, "payload.piece")...)
		}
		return "tail-like", p
	case "repetitive":
		unit := rapid.SliceOfN(rapid.Byte(), 1, 40).Draw(t, "payload.unit")
		n := rapid.IntRange(100, 9000).Draw(t, "payload.n")
		return "repetitive", repeatTo(unit, n)
	default:
		seed := rapid.Uint64().Draw(t, "payload.seed")
		n := 40<<10 + rapid.IntRange(0, 80<<10).Draw(t, "payload.n")
		switch rapid.IntRange(0, 3).Draw(t, "payload.bigkind") {
		case 0: // period longer than the 32 KiB window
			return "big/long-period", repeatTo(randomBytes(seed, rapid.IntRange(32769, 45000).Draw(t, "payload.unitn")), n)
		case 1: // short unit repeated far beyond the window
			return "big/short-period", repeatTo(randomBytes(seed, rapid.IntRange(1, 400).Draw(t, "payload.unitn")), n)
		case 2:
			return "big/text", textBytes(seed, n)
		default:
			if n > 70<<10 {
				n = 40<<10 + n%(30<<10)
			}
			return "big/random", randomBytes(seed, n)
		}
	}
}

// ---------------------------------------------------------------------------
// operation patterns

type op struct {
	Kind byte // 'w', 'f', 'c'
	Data []byte
}

type pattern struct {
	Ops     []op
	Writes  int
	Flushes int
	Ending  string // "flush", "flush+close", "close"
}

func (p pattern) String() string {
	b := make([]byte, 0, len(p.Ops))
	for _, o := range p.Ops {
		b = append(b, o.Kind)
	}
	return string(b)
}

func (p pattern) sizes() []int {
	var s []int
	for _, o := range p.Ops {
		if o.Kind == 'w' {
			s = append(s, len(o.Data))
		}
	}
	return s
}

// genPattern: (Write(chunk))*, Flush anywhere, ending in Flush, Flush+Close or
// (README / autobahn wiring) Close alone.
func genPattern(t *rapid.T, payload []byte) pattern {
	var p pattern
	pieces := gen.Split(t, "ops.split", payload, 6)
	if len(payload) == 0 && rapid.Bool().Draw(t, "ops.nowrite") {
		pieces = nil
	}
	for _, piece := range pieces {
		p.Ops = append(p.Ops, op{'w', piece})
		p.Writes++
		for k := 0; k < 2 && rapid.IntRange(0, 3).Draw(t, "ops.flush?") == 0; k++ {
			p.Ops = append(p.Ops, op{Kind: 'f'})
			p.Flushes++
		}
	}
	switch rapid.IntRange(0, 5).Draw(t, "ops.ending") {
	case 0, 1, 2:
		p.Ending = "flush"
		p.Ops = append(p.Ops, op{Kind: 'f'})
		p.Flushes++
	case 3, 4:
		p.Ending = "flush+close"
		p.Ops = append(p.Ops, op{Kind: 'f'}, op{Kind: 'c'})
		p.Flushes++
	default:
		p.Ending = "close"
		p.Ops = append(p.Ops, op{Kind: 'c'})
	}
	return p
}

// ---------------------------------------------------------------------------
// oracles

// inflateMessage is oracle A: the compressed message ++ 00 00 ff ff (++ an
// empty final block when the stream has none) through a bare compress/flate
// reader. It returns the inflated bytes and a description of a problem.
func inflateMessage(compressed []byte, hasFinal bool) ([]byte, string) {
	stream := append(append([]byte(nil), compressed...), tail...)
	if !hasFinal {
		stream = append(stream, finalBlock...)
	}
	br := bytes.NewReader(stream)
	fr := flate.NewReader(br)
	out, err := io.ReadAll(fr)
	if err != nil {
		return out, fmt.Sprintf("independent inflater failed after %d bytes: %v", len(out), err)
	}
	if br.Len() != 0 {
		return out, fmt.Sprintf("independent inflater met the final block %d bytes before the end of the stream", br.Len())
	}
	return out, ""
}

// inflateLoose: payload ++ 00 00 ff ff through the bare decoder, reading up to
// the final block if there is one (bytes after it are ignored) or to the end.
func inflateLoose(compressed []byte) ([]byte, error) {
	stream := append(append([]byte(nil), compressed...), tail...)
	stream = append(stream, finalBlock...)
	return io.ReadAll(flate.NewReader(bytes.NewReader(stream)))
}

func flateCtor(level int) func(io.Writer) wsflate.Compressor {
	return func(w io.Writer) wsflate.Compressor {
		f, err := flate.NewWriter(w, level)
		if err != nil {
			panic(err)
		}
		return f
	}
}

func flateDtor(r io.Reader) wsflate.Decompressor { return flate.NewReader(r) }

// chunkPlan says in which pieces a compressor hands its output to the
// wsflate.Writer: First (0 = no special first piece) then Sizes, cycled.
// compress/flate writes whole blocks; another conforming Compressor may write
// its bytes in any pieces, so the same stream is also delivered re-chunked.
type chunkPlan struct {
	First int
	Sizes []int
	i     int
	began bool
}

func genChunkPlan(t *rapid.T, label string) *chunkPlan {
	p := &chunkPlan{}
	if rapid.IntRange(0, 2).Draw(t, label+".first?") != 0 {
		p.First = rapid.IntRange(1, 3).Draw(t, label+".first")
	}
	p.Sizes = rapid.SliceOfN(rapid.SampledFrom([]int{1 << 20, 5, 1, 2, 3, 4, 6, 7, 8, 9, 1 << 20, 64}), 1, 6).Draw(t, label+".sizes")
	return p
}

func (c *chunkPlan) String() string { return fmt.Sprintf("first=%d sizes=%v", c.First, c.Sizes) }

func (c *chunkPlan) restart() { c.i, c.began = 0, false }

// deliver writes b to w in the planned pieces.
func (c *chunkPlan) deliver(w io.Writer, b []byte) error {
	for len(b) > 0 {
		var n int
		if !c.began && c.First > 0 {
			n = c.First
		} else {
			n = c.Sizes[c.i%len(c.Sizes)]
			c.i++
		}
		c.began = true
		if n > len(b) {
			n = len(b)
		}
		if _, err := w.Write(b[:n]); err != nil {
			return err
		}
		b = b[n:]
	}
	return nil
}

// rechunked is compress/flate behind a chunkPlan: a conforming Compressor
// (same bytes, same tail at every flush) with a different write pattern. It
// offers Close and the optional Reset of wsflate.WriteResetter.
type rechunked struct {
	fw    *flate.Writer
	stage bytes.Buffer
	out   io.Writer
	plan  *chunkPlan
}

func (r *rechunked) forward() error {
	err := r.plan.deliver(r.out, r.stage.Bytes())
	r.stage.Reset()
	return err
}

func (r *rechunked) Write(p []byte) (int, error) {
	n, err := r.fw.Write(p)
	if err != nil {
		return n, err
	}
	return n, r.forward()
}

func (r *rechunked) Flush() error {
	if err := r.fw.Flush(); err != nil {
		return err
	}
	return r.forward()
}

func (r *rechunked) Close() error {
	if err := r.fw.Close(); err != nil {
		return err
	}
	return r.forward()
}

func (r *rechunked) Reset(w io.Writer) {
	r.stage.Reset()
	r.fw.Reset(&r.stage)
	r.out = w
	r.plan.restart()
}

// rechunkCtor: compress/flate at the level, delivered as plan says (nil plan = bare compress/flate).
func rechunkCtor(level int, plan *chunkPlan) func(io.Writer) wsflate.Compressor {
	if plan == nil {
		return flateCtor(level)
	}
	return func(w io.Writer) wsflate.Compressor {
		r := &rechunked{out: w, plan: plan}
		plan.restart()
		fw, err := flate.NewWriter(&r.stage, level)
		if err != nil {
			panic(err)
		}
		r.fw = fw
		return r
	}
}

type srcPlan struct {
	Chunks      []int
	ByteReader  bool
	EOFWithData bool
	Std         int // 0: tx source; 1: bytes.Reader; 2: bytes.Reader wrapped to hide ReadByte; 3: bufio.Reader over the tx source
	ReadBuf     int
	Reuse       int // 0: fresh Reader; 1: the Reader handled another message before and was Reset
	PrevKind    int // index into prevMessages
	PrevSrc     int // 0 bytes.Reader, 1 plain (ReadByte hidden), 2 chunked io.ByteReader, 3 chunked plain, 4 bufio.Reader
	Dtor        int // decompressor: 0 flate.NewReader (Close, no Reset(io.Reader)); 1 Read only; 2 Read+Close+Reset(io.Reader); 3 reads through ReadByte only when offered
}

func genSrcPlan(t *rapid.T, label string) srcPlan {
	return srcPlan{
		Chunks:      gen.Chunks(t, label+".chunks"),
		ByteReader:  rapid.Bool().Draw(t, label+".bytereader"),
		EOFWithData: rapid.Bool().Draw(t, label+".eofwithdata"),
		Std:         rapid.SampledFrom([]int{0, 0, 0, 0, 1, 2, 3}).Draw(t, label+".std"),
		ReadBuf:     rapid.SampledFrom([]int{1, 2, 7, 64, 512, 4096, 40000}).Draw(t, label+".readbuf"),
		Reuse:       rapid.SampledFrom([]int{0, 0, 1}).Draw(t, label+".reuse"),
		PrevKind:    rapid.IntRange(0, len(prevMessages)-1).Draw(t, label+".prevkind"),
		PrevSrc:     rapid.IntRange(0, 4).Draw(t, label+".prevsrc"),
		Dtor:        rapid.IntRange(0, 3).Draw(t, label+".dtor"),
	}
}

func (s srcPlan) class() string {
	switch s.Std {
	case 1:
		return "bytes.Reader"
	case 2:
		return "plain-unchunked"
	case 3:
		return "bufio"
	}
	c := "plain/"
	if s.ByteReader {
		c = "bytereader/"
	}
	return c + gen.ChunkClass(s.Chunks)
}

type onlyReader struct{ io.Reader }

// Decompressor capabilities: Read is required; Close and Reset(io.Reader) are optional.
type readOnlyDecompressor struct{ io.Reader }

type resettableDecompressor struct{ io.ReadCloser }

func (d resettableDecompressor) Reset(r io.Reader) { d.ReadCloser.(flate.Resetter).Reset(r, nil) }

// byteOnly pulls everything through ReadByte: wsflate.Reader offers ReadByte to the
// decompressor whenever the source has it, so a decompressor may rely on it alone.
type byteOnly struct{ br io.ByteReader }

func (b byteOnly) ReadByte() (byte, error) { return b.br.ReadByte() }
func (b byteOnly) Read(p []byte) (int, error) {
	if len(p) == 0 {
		return 0, nil
	}
	c, err := b.br.ReadByte()
	if err != nil {
		return 0, err
	}
	p[0] = c
	return 1, nil
}

const (
	sigReadByteEOF   = "C12/suffixedreader-readbyte-returns-spurious-zero-at-source-eof"
	sigHelperNonData = "C12/compressframe-control-or-continuation-compressed-but-not-marked"
)

func dtorFor(kind int) func(io.Reader) wsflate.Decompressor {
	switch kind {
	case 3:
		return func(r io.Reader) wsflate.Decompressor {
			if br, ok := r.(io.ByteReader); ok {
				return flate.NewReader(byteOnly{br})
			}
			return flate.NewReader(r)
		}
	case 1:
		return func(r io.Reader) wsflate.Decompressor { return readOnlyDecompressor{flate.NewReader(r)} }
	case 2:
		return func(r io.Reader) wsflate.Decompressor { return resettableDecompressor{flate.NewReader(r)} }
	}
	return flateDtor
}

// prevMessages: what a reused Reader handled before its Reset.
type prevMessage struct {
	Name       string
	Compressed []byte
	Want       []byte
	ReadOnly   int // > 0: the application abandons the message after this many bytes
	Fails      bool  // the message cannot be read (corrupt / cut / source error): read until it fails, outcome not judged
	SrcErr     error // the source ends with this error instead of io.EOF
}

var prevMessages = func() []prevMessage {
	deflate := func(p []byte, closeIt bool) []byte {
		var b bytes.Buffer
		fw, _ := flate.NewWriter(&b, 6)
		fw.Write(p)
		if closeIt {
			fw.Close()
		} else {
			fw.Flush()
		}
		return append([]byte(nil), b.Bytes()[:b.Len()-4]...)
	}
	warm := []byte("warm-up message")
	large := randomBytes(77, 100<<10)
	return []prevMessage{
		{"sync-flushed, read to the end", deflate(warm, false), warm, 0, false, nil},
		{"ended by Close without Flush (final block), read to the end", deflate(warm, true), warm, 0, false, nil},
		{"RFC 7692 §7.2.3.4 BFINAL form with the trailing 00, read to the end", []byte{0xf3, 0x48, 0xcd, 0xc9, 0xc9, 0x07, 0x00, 0x00}, []byte("Hello"), 0, false, nil},
		{"large message abandoned after its first bytes", deflate(large, false), large, 10, false, nil},
		{"small message abandoned after 3 bytes", deflate(warm, false), warm, 3, false, nil},
		{"corrupt bytes", []byte{0xff, 0xff, 0xff, 0xfe, 0x12, 0x34, 0x56}, nil, 0, true, nil},
		{"large message cut before its end", deflate(large, false)[:50<<10], nil, 0, true, nil},
		{"small message cut before its end", deflate(warm, false)[:5], nil, 0, true, nil},
		{"source error in the middle of a message", deflate(large, false)[:30<<10], nil, 0, true, tx.ErrInjected},
	}
}()

func prevSource(kind int, b []byte) io.Reader {
	switch kind {
	case 0:
		return bytes.NewReader(b)
	case 1:
		return onlyReader{bytes.NewReader(b)}
	case 2:
		return tx.ByteSrc{Src: tx.NewSrc(b, []int{3, 1, 7})}
	case 3:
		return tx.NewSrc(b, []int{3, 1, 7})
	}
	return bufio.NewReaderSize(tx.NewSrc(b, []int{5}), 16)
}

// decompress is oracle B's subject: wsflate.Reader over the compressed message
// served as the plan says. It returns the recovered bytes and a problem.
func decompress(compressed []byte, s srcPlan) ([]byte, string) {
	if s.Dtor == 3 && hx.Known(sigReadByteEOF) {
		hx.Exclude(sigReadByteEOF)
		s.Dtor = 0
	}
	var src io.Reader
	var ts *tx.Src
	switch s.Std {
	case 1:
		src = bytes.NewReader(compressed)
	case 2:
		src = onlyReader{bytes.NewReader(compressed)}
	default:
		ts = tx.NewSrc(compressed, s.Chunks)
		ts.EOFWithData = s.EOFWithData
		src = ts
		if s.Std == 3 {
			src = bufio.NewReaderSize(ts, 16)
		} else if s.ByteReader {
			src = tx.ByteSrc{Src: ts}
		}
	}
	var rd *wsflate.Reader
	if s.Reuse == 0 {
		rd = wsflate.NewReader(src, dtorFor(s.Dtor))
	} else {
		// documented reuse: "Reader might be reused for different io.Reader objects after its Reset()"
		pm := prevMessages[s.PrevKind]
		psrc := prevSource(s.PrevSrc, pm.Compressed)
		if pm.SrcErr != nil {
			es := tx.NewSrc(pm.Compressed, []int{4096})
			es.End = pm.SrcErr
			psrc = es
			if s.PrevSrc%2 == 0 {
				psrc = tx.ByteSrc{Src: es}
			}
		}
		rd = wsflate.NewReader(psrc, dtorFor(s.Dtor))
		if pm.Fails {
			io.Copy(io.Discard, rd) // whatever it reports — the next message is what is judged
			if s.PrevSrc == 1 {
				rd.Close()
			}
		} else if pm.ReadOnly > 0 {
			p := make([]byte, pm.ReadOnly)
			if n, err := io.ReadFull(rd, p); err != nil || !bytes.Equal(p[:n], pm.Want[:n]) {
				return nil, fmt.Sprintf("previous message (%s, source kind %d): first %d bytes: %x, %v", pm.Name, s.PrevSrc, pm.ReadOnly, p[:n], err)
			}
		} else if p, err := io.ReadAll(rd); err != nil || !bytes.Equal(p, pm.Want) {
			return nil, fmt.Sprintf("previous message (%s, source kind %d): %q, %v", pm.Name, s.PrevSrc, p, err)
		}
		rd.Reset(src)
	}
	buf := make([]byte, s.ReadBuf)
	var out []byte
	for i := 0; ; i++ {
		n, err := rd.Read(buf)
		if n < 0 || n > len(buf) {
			return out, fmt.Sprintf("Read returned n=%d for a %d-byte buffer", n, len(buf))
		}
		out = append(out, buf[:n]...)
		if err == io.EOF {
			break
		}
		if err != nil {
			return out, fmt.Sprintf("wsflate.Reader.Read failed after %d bytes: %v", len(out), err)
		}
		if i > 64+8*len(compressed)+4000000 {
			return out, "wsflate.Reader does not terminate"
		}
	}
	if err := rd.Close(); err != nil {
		return out, fmt.Sprintf("wsflate.Reader.Close after a complete read: %v", err)
	}
	if ts != nil && ts.Runaway {
		return out, "source read implausibly often"
	}
	return out, ""
}

func short(b []byte) string {
	if len(b) > 48 {
		return fmt.Sprintf("%x…(%d bytes)", b[:48], len(b))
	}
	return fmt.Sprintf("%x", b)
}

func firstDiff(a, b []byte) string {
	n := len(a)
	if len(b) < n {
		n = len(b)
	}
	for i := 0; i < n; i++ {
		if a[i] != b[i] {
			return fmt.Sprintf("lengths %d/%d, first difference at offset %d", len(a), len(b), i)
		}
	}
	return fmt.Sprintf("lengths %d/%d, common prefix equal", len(a), len(b))
}

func levelName(l int) string { return fmt.Sprintf("L%d", l) }

// Compressor capabilities: the interface asks for Write+Flush only; Close and
// Reset are optional. The wrappers record what the compressor emits (ground
// truth for the tail rule) and expose exactly the drawn method set.
type capBase struct {
	inner wsflate.Compressor
	em    *emission
}

func (c *capBase) Write(p []byte) (int, error) { return c.inner.Write(p) }
func (c *capBase) Flush() error                { return c.inner.Flush() }

type capFlushOnly struct{ *capBase }

type capClose struct{ *capBase }

func (c capClose) Close() error { return c.inner.(io.Closer).Close() }

type capAll struct{ capClose }

func (c capAll) Reset(w io.Writer) {
	c.em.w = w
	c.em.all = c.em.all[:0]
	c.inner.(wsflate.WriteResetter).Reset(c.em)
}

var capNames = []string{"write+flush+close+reset", "write+flush+close", "write+flush"}

// capCtor wraps ctor's compressor; *em always points at the recorder in use.
func capCtor(capability int, ctor func(io.Writer) wsflate.Compressor, em **emission) func(io.Writer) wsflate.Compressor {
	return func(w io.Writer) wsflate.Compressor {
		e := &emission{w: w}
		*em = e
		b := &capBase{inner: ctor(e), em: e}
		switch capability {
		case 0:
			return capAll{capClose{b}}
		case 1:
			return capClose{b}
		}
		return capFlushOnly{b}
	}
}

// flaky is a destination whose failAt-th Write call (0-based) fails without
// taking a byte; every other call succeeds.
type flaky struct {
	failAt int
	calls  int
	buf    []byte
}

func (f *flaky) Write(p []byte) (int, error) {
	i := f.calls
	f.calls++
	if i == f.failAt {
		return 0, tx.ErrInjected
	}
	f.buf = append(f.buf, p...)
	return len(p), nil
}

// ---------------------------------------------------------------------------
// TestRoundTrip: writer output vs independent inflater (A), reader vs own
// output (B-i) and vs independent encoder output (B-ii).

func TestRoundTrip(t *testing.T) {
	hx.Check(t, 7, func(t *rapid.T) {
		class, payload := genPayload(t, true)
		pat := genPattern(t, payload)
		level := genLevel(t, "level")
		extLevel := genLevel(t, "extlevel")
		plan1 := genSrcPlan(t, "src1")
		plan2 := genSrcPlan(t, "src2")
		big := len(payload) > 32<<10
		var plan *chunkPlan
		if rapid.IntRange(0, 2).Draw(t, "rechunk") != 0 {
			plan = genChunkPlan(t, "plan")
			hx.Class(fmt.Sprintf("roundtrip/compressor=rechunked/first=%d", plan.First))
		} else {
			hx.Class("roundtrip/compressor=bare-flate")
		}
		capability := rapid.SampledFrom([]int{0, 0, 1, 2, 2}).Draw(t, "capability")
		var em *emission
		ctor := capCtor(capability, rechunkCtor(level, plan), &em)
		hx.Class("roundtrip/compressor-methods=" + capNames[capability])

		hx.Eval()
		hx.Class("roundtrip/payload=" + class)
		hx.Class("roundtrip/ending=" + pat.Ending)
		hx.Class("roundtrip/level=" + levelName(level))
		hx.Class("roundtrip/src=" + plan1.class())
		hx.Class("roundtrip/src=" + plan2.class())
		for _, pl := range []srcPlan{plan1, plan2} {
			if pl.Reuse != 0 {
				hx.Class(fmt.Sprintf("roundtrip/reader-reused/prev-kind=%d/prev-src=%d", pl.PrevKind, pl.PrevSrc))
			}
		}
		if len(payload) > 0 && (pat.Writes >= 2 || pat.Flushes >= 2 || big) {
			hx.NonTrivial(hx.Hash("rt", class, len(payload), pat.String(), fmt.Sprint(pat.sizes()), level, plan1.class(), plan2.class()), func() interface{} {
				return map[string]interface{}{"test": "roundtrip", "payload_class": class, "payload_len": len(payload), "ops": pat.String(),
					"write_sizes": pat.sizes(), "compressor_output": fmt.Sprint(plan), "level": level, "ext_level": extLevel, "src_own": plan1.class(), "src_ext": plan2.class()}
			})
		}

		// --- the library's writer
		rec := tx.NewRec()
		var w *wsflate.Writer
		switch rapid.SampledFrom([]int{0, 0, 0, 1, 2}).Draw(t, "writer-reuse") {
		case 0:
			w = wsflate.NewWriter(rec, ctor)
		case 1: // documented reuse after a complete message
			w = wsflate.NewWriter(tx.NewRec(), ctor)
			w.Write([]byte("previous message"))
			w.Flush()
			w.Reset(rec)
			hx.Class("roundtrip/writer=reset-after-message")
		default: // Reset drops unflushed data
			w = wsflate.NewWriter(tx.NewRec(), ctor)
			w.Write([]byte("abandoned"))
			w.Reset(rec)
			hx.Class("roundtrip/writer=reset-mid-message")
		}
		var written []byte
		closed := false
		unflushed := true // anything (even nothing) not yet followed by a Flush
		for i, o := range pat.Ops {
			switch o.Kind {
			case 'w':
				n, err := w.Write(o.Data)
				if err != nil || n != len(o.Data) {
					t.Fatalf("op %d of %s: Write(%d bytes) = %d, %v", i, pat, len(o.Data), n, err)
				}
				written = append(written, o.Data...)
				unflushed = true
			case 'f':
				if err := w.Flush(); err != nil {
					t.Fatalf("op %d of %s: Flush: %v (compress/flate level %d, output delivered as %v, is a conforming compressor)", i, pat, err, level, plan)
				}
				unflushed = false
				if len(written) <= 8<<10 {
					// every flush point is a possible end of message
					got, msg := inflateMessage(rec.Bytes(), false)
					if msg != "" {
						t.Fatalf("op %d of %s (level %d), destination %s ++ 0000ffff: %s", i, pat, level, short(rec.Bytes()), msg)
					}
					if !bytes.Equal(got, written) {
						t.Fatalf("op %d of %s (level %d): destination ++ 0000ffff inflates to something else than the %d bytes written so far: %s",
							i, pat, level, len(written), firstDiff(got, written))
					}
				}
			case 'c':
				err := w.Close()
				if capability == 2 && unflushed {
					// The compressor cannot be closed, so Close flushes nothing. If what the compressor
					// emitted so far does not end in the tail this must be reported; if an earlier flush
					// left the tail in place the loss is the caller's (doc: "After all data has been
					// written client should call Flush()") — open.
					if !bytes.HasSuffix(em.all, tail) {
						if err == nil || w.Err() == nil {
							t.Fatalf("op %d of %s with a Write+Flush-only compressor (level %d, output delivered as %v): Close = %v, Err() = %v although the compressor's output (%s) does not end in 0000ffff; destination holds %s for a %d-byte message",
								i, pat, level, plan, err, w.Err(), shortTail(em.all), short(rec.Bytes()), len(payload))
						}
						hx.Class("roundtrip/close-without-flush-on-uncloseable-compressor=reported")
					} else {
						hx.Class("open/close-without-flush-on-uncloseable-compressor-after-earlier-flush")
					}
					return
				}
				if err != nil {
					t.Fatalf("op %d of %s: Close: %v", i, pat, err)
				}
				closed = capability != 2 // only a closeable compressor writes a final block
			}
		}
		if err := w.Err(); err != nil {
			t.Fatalf("Err() = %v after a clean history", err)
		}
		own := rec.Bytes()

		// Oracle A
		got, msg := inflateMessage(own, closed)
		if msg != "" {
			t.Fatalf("%s level %d (compressor output delivered as %v) payload %s(%d): destination %s ++ 0000ffff: %s", pat, level, plan, class, len(payload), short(own), msg)
		}
		if !bytes.Equal(got, payload) {
			t.Fatalf("%s level %d payload %s(%d): destination ++ 0000ffff inflates to a different message: %s", pat, level, class, len(payload), firstDiff(got, payload))
		}

		// Oracle B (i): own output
		got, msg = decompress(own, plan1)
		if msg != "" {
			t.Fatalf("own output of %s level %d payload %s(%d) served as %+v: %s", pat, level, class, len(payload), plan1, msg)
		}
		if !bytes.Equal(got, payload) {
			t.Fatalf("own output of %s level %d served as %+v: recovered a different message: %s", pat, level, plan1, firstDiff(got, payload))
		}

		// transient destination failure: call i fails once, later calls succeed. Either the
		// writer reports it, or what was delivered still is the whole message.
		if ncalls := len(rec.Calls); ncalls > 0 && !big {
			var at []int
			if ncalls <= hx.Pick(12, 4) {
				for i := 0; i < ncalls; i++ {
					at = append(at, i)
				}
			} else {
				for k := 0; k < hx.Pick(6, 3); k++ {
					at = append(at, rapid.IntRange(0, ncalls-1).Draw(t, "fail-at"))
				}
			}
			for _, fi := range at {
				hx.Eval()
				fl := &flaky{failAt: fi}
				fwr := wsflate.NewWriter(fl, rechunkCtor(level, plan))
				reported := false
				for _, o := range pat.Ops {
					var err error
					switch o.Kind {
					case 'w':
						_, err = fwr.Write(o.Data)
					case 'f':
						err = fwr.Flush()
					case 'c':
						err = fwr.Close()
					}
					if err != nil {
						reported = true
						break
					}
				}
				if fwr.Err() != nil {
					reported = true
				}
				if reported {
					hx.Class("roundtrip/transient-dest-error=reported")
					continue
				}
				if fl.calls <= fi {
					hx.Class("roundtrip/transient-dest-error=not-reached")
				} else {
					hx.Class("roundtrip/transient-dest-error=UNREPORTED")
				}
				got, msg := inflateMessage(fl.buf, closed)
				if msg != "" || !bytes.Equal(got, payload) {
					t.Fatalf("%s level %d (compressor output delivered as %v) payload %s(%d): destination call %d of %d failed once; every Write/Flush/Close and Err() reported success, but the delivered bytes ++ 0000ffff are not the message: %s %s",
						pat, level, plan, class, len(payload), fi, ncalls, msg, firstDiff(got, payload))
				}
			}
		}

		// the same through the helper's one-shot decompression
		hlp := wsflate.Helper{Decompressor: flateDtor}
		if got, err := hlp.Decompress(own); err != nil || !bytes.Equal(got, payload) {
			t.Fatalf("Helper.Decompress of the own output of %s level %d payload %s(%d): err=%v, %s", pat, level, class, len(payload), err, firstDiff(got, payload))
		}
		var gb growBuf
		if err := hlp.DecompressTo(&gb, own); err != nil || !bytes.Equal(gb.b, payload) {
			t.Fatalf("Helper.DecompressTo of the own output of %s level %d payload %s(%d): err=%v, %s", pat, level, class, len(payload), err, firstDiff(gb.b, payload))
		}

		// Oracle B (ii): an independent encoder with the same write/flush pattern
		var ext bytes.Buffer
		fw, err := flate.NewWriter(&ext, extLevel)
		if err != nil {
			t.Fatalf("harness: %v", err)
		}
		for _, o := range pat.Ops {
			switch o.Kind {
			case 'w':
				fw.Write(o.Data)
			case 'f':
				fw.Flush()
			case 'c':
				fw.Close()
			}
		}
		eb := ext.Bytes()
		if !bytes.HasSuffix(eb, tail) {
			t.Fatalf("harness: compress/flate output does not end in 0000ffff: %s", short(eb))
		}
		eb = eb[:len(eb)-4]
		got, msg = decompress(eb, plan2)
		if msg != "" {
			t.Fatalf("compress/flate(level %d) output of %s, tail stripped, payload %s(%d), served as %+v: %s", extLevel, pat, class, len(payload), plan2, msg)
		}
		if !bytes.Equal(got, payload) {
			t.Fatalf("compress/flate(level %d) output of %s, tail stripped, served as %+v: recovered a different message: %s", extLevel, pat, plan2, firstDiff(got, payload))
		}
	})
}

// Chunking independence of the reader on one compressed message: every cut
// position of a two-chunk plan, for both kinds of sources.
func TestReaderEveryCut(t *testing.T) {
	hx.Check(t, 0.3, func(t *rapid.T) {
		class, payload := genPayload(t, false)
		if len(payload) > 600 {
			payload = payload[:600]
		}
		level := genLevel(t, "level")
		pat := genPattern(t, payload)
		var ext bytes.Buffer
		fw, _ := flate.NewWriter(&ext, level)
		for _, o := range pat.Ops {
			switch o.Kind {
			case 'w':
				fw.Write(o.Data)
			case 'f':
				fw.Flush()
			case 'c':
				fw.Close()
			}
		}
		eb := ext.Bytes()
		eb = eb[:len(eb)-4]
		hx.Class("everycut/payload=" + class)
		for cut := 0; cut <= len(eb); cut++ {
			for _, br := range []bool{false, true} {
				for _, ewd := range []bool{false, true} {
					hx.Eval()
					plan := srcPlan{Chunks: []int{cut, 1 << 30}, ByteReader: br, EOFWithData: ewd, ReadBuf: 512}
					if cut == 0 {
						plan.Chunks = nil
					}
					got, msg := decompress(eb, plan)
					if msg != "" {
						t.Fatalf("compressed %s cut at %d (bytereader=%v, eof-with-data=%v): %s", short(eb), cut, br, ewd, msg)
					}
					if !bytes.Equal(got, payload) {
						t.Fatalf("compressed %s cut at %d (bytereader=%v): recovered a different message: %s", short(eb), cut, br, firstDiff(got, payload))
					}
				}
			}
		}
		hx.Part("reader: every 2-chunk cut x bytereader x eof-with-data of sampled messages", int64(4*(len(eb)+1)), false)
	})
}

// ---------------------------------------------------------------------------
// frame helpers

type growBuf struct{ b []byte } // a minimal wsflate.Buffer that is not a bytes.Buffer

func (g *growBuf) Write(p []byte) (int, error) { g.b = append(g.b, p...); return len(p), nil }
func (g *growBuf) Bytes() []byte               { return g.b }

func hdrString(h ws.Header) string {
	return fmt.Sprintf("{fin=%v rsv=%d op=%#x masked=%v mask=%x len=%d}", h.Fin, h.Rsv, byte(h.OpCode), h.Masked, h.Mask, h.Length)
}

func TestFrameHelpers(t *testing.T) {
	hx.Check(t, 4, func(t *rapid.T) {
		class, payload := genPayload(t, rapid.IntRange(0, 3).Draw(t, "allowbig") == 0)
		opc := rapid.SampledFrom([]ws.OpCode{ws.OpText, ws.OpBinary}).Draw(t, "op")
		h := ws.Header{Fin: true, OpCode: opc, Length: int64(len(payload))}
		h.Rsv = byte(rapid.SampledFrom([]int{0, 0, 0, 1, 2, 3}).Draw(t, "rsv23")) // RSV1 clear: the frame is not compressed yet
		if rapid.IntRange(0, 5).Draw(t, "masked?") == 0 {
			h.Masked = true
			h.Mask = gen.Key(t, "mask")
		}
		level := genLevel(t, "level")
		variant := rapid.IntRange(0, 4).Draw(t, "variant")
		in := ws.Frame{Header: h, Payload: append([]byte(nil), payload...)}
		var plan *chunkPlan
		if rapid.Bool().Draw(t, "rechunk") {
			plan = genChunkPlan(t, "plan")
		}
		helper := wsflate.Helper{Compressor: rechunkCtor(level, plan), Decompressor: flateDtor}

		hx.Eval()
		hx.Class("frame/payload=" + class)
		hx.Class(fmt.Sprintf("frame/variant=%d", variant))
		if len(payload) > 0 {
			hx.NonTrivial(hx.Hash("frame", class, len(payload), variant, level, h.Rsv, byte(opc), h.Masked), func() interface{} {
				return map[string]interface{}{"test": "frame-helpers", "payload_class": class, "payload_len": len(payload), "variant": variant, "level": level, "header": hdrString(h)}
			})
		}

		// --- compress
		var cf ws.Frame
		var err error
		var name string
		switch variant {
		case 0:
			name = "wsflate.CompressFrame"
			cf, err = wsflate.CompressFrame(in)
		case 1:
			name = "wsflate.CompressFrameBuffer(bytes.Buffer)"
			var b bytes.Buffer
			cf, err = wsflate.CompressFrameBuffer(&b, in)
			if err == nil && !bytes.Equal(cf.Payload, b.Bytes()) {
				t.Fatalf("%s: payload is not buf.Bytes()", name)
			}
		case 2:
			name = "Helper.CompressFrame"
			cf, err = helper.CompressFrame(in)
		case 3:
			name = "Helper.CompressFrameBuffer(custom Buffer)"
			var g growBuf
			cf, err = helper.CompressFrameBuffer(&g, in)
			if err == nil && !bytes.Equal(cf.Payload, g.Bytes()) {
				t.Fatalf("%s: payload is not buf.Bytes()", name)
			}
		default:
			name = "Helper.Compress/CompressTo + manual header"
			var p1 []byte
			p1, err = helper.Compress(in.Payload)
			if err == nil {
				var b bytes.Buffer
				if err2 := helper.CompressTo(&b, in.Payload); err2 != nil {
					t.Fatalf("Helper.CompressTo: %v", err2)
				}
				if !bytes.Equal(p1, b.Bytes()) {
					t.Fatalf("Helper.Compress and Helper.CompressTo disagree on the same input and compressor: %s vs %s", short(p1), short(b.Bytes()))
				}
				cf = ws.Frame{Header: h, Payload: p1}
				cf.Header.Rsv |= 0x4
				cf.Header.Length = int64(len(p1))
			}
		}
		if err != nil {
			t.Fatalf("%s(%s, %d payload bytes): %v", name, hdrString(h), len(payload), err)
		}
		if !bytes.Equal(in.Payload, payload) {
			t.Fatalf("%s modified the payload of its argument", name)
		}
		wantH := h
		wantH.Rsv |= 0x4
		wantH.Length = int64(len(cf.Payload))
		if cf.Header != wantH {
			t.Fatalf("%s(%s): header %s, want %s (same header, RSV1 set, Length = %d compressed bytes)", name, hdrString(h), hdrString(cf.Header), hdrString(wantH), len(cf.Payload))
		}
		got, msg := inflateMessage(cf.Payload, true) // helpers Flush and Close the compressor
		if msg != "" {
			// a stream without final block is equally fine
			got, msg = inflateMessage(cf.Payload, false)
		}
		if msg != "" {
			t.Fatalf("%s: payload %s ++ 0000ffff: %s", name, short(cf.Payload), msg)
		}
		if !bytes.Equal(got, payload) {
			t.Fatalf("%s: payload ++ 0000ffff inflates to a different message: %s", name, firstDiff(got, payload))
		}

		// --- decompress: the library's frame and one built with an independent encoder
		var ext bytes.Buffer
		fw, _ := flate.NewWriter(&ext, genLevel(t, "extlevel"))
		for _, piece := range gen.Split(t, "ext.split", payload, 3) {
			fw.Write(piece)
			fw.Flush()
		}
		fw.Flush()
		eb := ext.Bytes()
		eb = eb[:len(eb)-4]
		mk := func(b []byte) ws.Frame {
			f := ws.Frame{Header: h, Payload: b}
			f.Header.Rsv |= 0x4
			f.Header.Length = int64(len(b))
			return f
		}
		type compressedInput struct {
			src string
			f   ws.Frame
		}
		inputs := []compressedInput{{"own", cf}, {"independent encoder, sync-flushed, tail stripped", mk(eb)}}
		{
			// messages whose DEFLATE stream ends with BFINAL=1 (RFC 7692 §7.2.3.4): the
			// inflater then hands out the last bytes together with the end of stream
			var c bytes.Buffer
			cw, _ := flate.NewWriter(&c, genLevel(t, "closelevel"))
			for _, piece := range gen.Split(t, "close.split", payload, 3) {
				if c.Len() > 0 || rapid.Bool().Draw(t, "close.flush-between") {
					cw.Flush()
				}
				cw.Write(piece)
			}
			cw.Close()
			cb := append([]byte(nil), c.Bytes()...)
			inputs = append(inputs, compressedInput{"independent encoder, ended by Close, as is", mk(cb)})
			if bytes.HasSuffix(cb, tail) {
				inputs = append(inputs, compressedInput{"independent encoder, ended by Close, last 4 bytes stripped", mk(cb[:len(cb)-4])})
			}
			if len(payload) <= 0xffff {
				// hand-made: optional sync-flushed first part, then one final stored block carrying the rest
				cut := rapid.IntRange(0, len(payload)).Draw(t, "stored.cut")
				var sb bytes.Buffer
				if cut > 0 {
					sw, _ := flate.NewWriter(&sb, genLevel(t, "storedlevel"))
					sw.Write(payload[:cut])
					sw.Flush()
				}
				rest := payload[cut:]
				sb.Write([]byte{0x01, byte(len(rest)), byte(len(rest) >> 8), ^byte(len(rest)), ^byte(len(rest) >> 8)})
				sb.Write(rest)
				if rapid.Bool().Draw(t, "stored.rfc-padding") {
					sb.WriteByte(0x00) // §7.2.3.4: empty block appended, its 00 00 ff ff removed
				}
				inputs = append(inputs, compressedInput{"hand-made final stored block carrying data", mk(append([]byte(nil), sb.Bytes()...))})
			}
			// the library Writer ended by Close alone (README wiring)
			orec := tx.NewRec()
			ow := wsflate.NewWriter(orec, rechunkCtor(level, plan))
			for _, piece := range gen.Split(t, "own.split", payload, 3) {
				if _, err := ow.Write(piece); err != nil {
					t.Fatalf("wsflate.Writer.Write: %v", err)
				}
			}
			if err := ow.Close(); err != nil {
				t.Fatalf("wsflate.Writer.Close: %v", err)
			}
			inputs = append(inputs, compressedInput{"own wsflate.Writer, Write*+Close without Flush", mk(orec.Bytes())})
			for _, in := range inputs[2:] {
				if got, err := inflateLoose(in.f.Payload); err != nil || !bytes.Equal(got, payload) {
					t.Fatalf("harness/oracle: %s: %s ++ 0000ffff does not inflate to the message with the independent decoder: %v", in.src, short(in.f.Payload), err)
				}
			}
		}

		for _, in := range inputs {
			src, c := in.src, in.f
			c.Payload = append([]byte(nil), c.Payload...)
			keep := append([]byte(nil), c.Payload...)
			var df ws.Frame
			var dname string
			switch variant {
			case 0:
				dname = "wsflate.DecompressFrame"
				df, err = wsflate.DecompressFrame(c)
			case 1:
				dname = "wsflate.DecompressFrameBuffer(bytes.Buffer)"
				var b bytes.Buffer
				df, err = wsflate.DecompressFrameBuffer(&b, c)
				if err == nil && !bytes.Equal(df.Payload, b.Bytes()) {
					t.Fatalf("%s: payload is not buf.Bytes()", dname)
				}
			case 2:
				dname = "Helper.DecompressFrame"
				df, err = helper.DecompressFrame(c)
			case 3:
				dname = "Helper.DecompressFrameBuffer(custom Buffer)"
				var g growBuf
				df, err = helper.DecompressFrameBuffer(&g, c)
				if err == nil && !bytes.Equal(df.Payload, g.Bytes()) {
					t.Fatalf("%s: payload is not buf.Bytes()", dname)
				}
			default:
				dname = "Helper.Decompress/DecompressTo + manual header"
				var p1 []byte
				p1, err = helper.Decompress(c.Payload)
				if err == nil {
					var b bytes.Buffer
					if err2 := helper.DecompressTo(&b, c.Payload); err2 != nil {
						t.Fatalf("Helper.DecompressTo: %v", err2)
					}
					if !bytes.Equal(p1, b.Bytes()) {
						t.Fatalf("Helper.Decompress and Helper.DecompressTo disagree: %s", firstDiff(p1, b.Bytes()))
					}
					df = ws.Frame{Header: h, Payload: p1}
				}
			}
			if err != nil {
				t.Fatalf("%s of the %s compressed frame (%s, payload %s): %v", dname, src, hdrString(c.Header), short(c.Payload), err)
			}
			if !bytes.Equal(c.Payload, keep) {
				t.Fatalf("%s modified the payload of its argument", dname)
			}
			if df.Header != h {
				t.Fatalf("%s of the %s compressed frame: header %s, want the original %s", dname, src, hdrString(df.Header), hdrString(h))
			}
			if !bytes.Equal(df.Payload, payload) {
				t.Fatalf("%s of the %s compressed frame: payload differs from the original: %s", dname, src, firstDiff(df.Payload, payload))
			}
		}

		// --- non-final frames are refused by both directions
		nf := in
		nf.Header.Fin = false
		var b1, b2 bytes.Buffer
		if _, err := wsflate.CompressFrame(nf); err == nil {
			t.Fatalf("CompressFrame accepted a non-final frame %s", hdrString(nf.Header))
		}
		if _, err := helper.CompressFrameBuffer(&b1, nf); err == nil {
			t.Fatalf("Helper.CompressFrameBuffer accepted a non-final frame %s", hdrString(nf.Header))
		}
		ncf := cf
		ncf.Header.Fin = false
		if _, err := wsflate.DecompressFrame(ncf); err == nil {
			t.Fatalf("DecompressFrame accepted a non-final compressed frame %s", hdrString(ncf.Header))
		}
		if _, err := helper.DecompressFrameBuffer(&b2, ncf); err == nil {
			t.Fatalf("Helper.DecompressFrameBuffer accepted a non-final compressed frame %s", hdrString(ncf.Header))
		}
		if _, err := wsflate.DecompressFrame(nf); err == nil {
			t.Fatalf("DecompressFrame accepted a non-final frame %s", hdrString(nf.Header))
		}
	})
}

// The worked examples of RFC 7692 §7.2.3 (all say "Hello"; §7.2.3.2 needs the
// context of a previous message and is left out).
var rfcVectors = []struct {
	Name string
	Hex  []byte
}{
	{"7.2.3.1 one compressed block", []byte{0xf2, 0x48, 0xcd, 0xc9, 0xc9, 0x07, 0x00}},
	{"7.2.3.3 block with no compression", []byte{0x01, 0x05, 0x00, 0xfa, 0xff, 0x48, 0x65, 0x6c, 0x6c, 0x6f, 0x00}},
	{"7.2.3.4 block with BFINAL=1", []byte{0xf3, 0x48, 0xcd, 0xc9, 0xc9, 0x07, 0x00, 0x00}},
	{"7.2.3.5 two blocks in one message", []byte{0xf2, 0x48, 0x05, 0x00, 0x00, 0x00, 0xff, 0xff, 0xca, 0xc9, 0xc9, 0x07, 0x00}},
}

func TestRFCVectors(t *testing.T) {
	want := []byte("Hello")
	n := 0
	for _, v := range rfcVectors {
		if got, err := inflateLoose(v.Hex); err != nil || !bytes.Equal(got, want) {
			hx.Failf(t, v.Name, "harness: the independent decoder reads %x as %q, %v", v.Hex, got, err)
			return
		}
		hx.NonTrivial(hx.Hash("rfc", v.Name), func() interface{} {
			return map[string]interface{}{"test": "rfc-vectors", "vector": v.Name, "payload_hex": fmt.Sprintf("%x", v.Hex)}
		})
		// wsflate.Reader under every chunking / source kind / caller buffer
		for cut := 0; cut <= len(v.Hex); cut++ {
			for _, br := range []bool{false, true} {
				for _, ewd := range []bool{false, true} {
					for _, rb := range []int{1, 3, 512} {
						for _, std := range []int{0, 1} {
							plan := srcPlan{Chunks: []int{cut, 1 << 30}, ByteReader: br, EOFWithData: ewd, ReadBuf: rb, Std: std}
							if cut == 0 {
								plan.Chunks = []int{1}
							}
							n++
							hx.Eval()
							got, msg := decompress(v.Hex, plan)
							if msg != "" || !bytes.Equal(got, want) {
								hx.Failf(t, map[string]interface{}{"vector": v.Name, "plan": fmt.Sprintf("%+v", plan)}, "wsflate.Reader on RFC 7692 §%s (%x): got %q %s, want %q", v.Name, v.Hex, got, msg, want)
								return
							}
						}
					}
				}
			}
		}
		// helpers
		for _, op := range []ws.OpCode{ws.OpText, ws.OpBinary} {
			f := ws.NewFrame(op, true, append([]byte(nil), v.Hex...))
			f.Header.Rsv = 0x4
			wantH := ws.NewFrame(op, true, want).Header
			var b1 bytes.Buffer
			var g growBuf
			var gb growBuf
			type res struct {
				name string
				f    ws.Frame
				err  error
			}
			var rs []res
			d, err := wsflate.DecompressFrame(f)
			rs = append(rs, res{"DecompressFrame", d, err})
			d, err = wsflate.DecompressFrameBuffer(&b1, f)
			rs = append(rs, res{"DecompressFrameBuffer(bytes.Buffer)", d, err})
			d, err = wsflate.DefaultHelper.DecompressFrameBuffer(&g, f)
			rs = append(rs, res{"Helper.DecompressFrameBuffer(custom Buffer)", d, err})
			p, err := wsflate.DefaultHelper.Decompress(v.Hex)
			rs = append(rs, res{"Helper.Decompress", ws.Frame{Header: wantH, Payload: p}, err})
			err = wsflate.DefaultHelper.DecompressTo(&gb, v.Hex)
			rs = append(rs, res{"Helper.DecompressTo", ws.Frame{Header: wantH, Payload: gb.b}, err})
			for _, r := range rs {
				n++
				hx.Eval()
				if r.err != nil || r.f.Header != wantH || !bytes.Equal(r.f.Payload, want) {
					hx.Failf(t, map[string]interface{}{"vector": v.Name, "api": r.name}, "%s on RFC 7692 §%s (%x): header %s payload %q err %v; want %s %q", r.name, v.Name, v.Hex, hdrString(r.f.Header), r.f.Payload, r.err, hdrString(wantH), want)
					return
				}
			}
		}
	}
	hx.Part("RFC 7692 §7.2.3 examples x every cut x source kind x caller buffer; x decompress API", int64(n), true)
}

// Results the library allocates itself must stay valid when the helper is
// called again: compress a batch first, look at all results afterwards; same
// for decompression. (One goroutine, no caller-supplied buffers.)
func TestFrameHelpersBatch(t *testing.T) {
	hx.Check(t, 3, func(t *rapid.T) {
		k := rapid.IntRange(2, 8).Draw(t, "k")
		level := genLevel(t, "level")
		variant := rapid.SampledFrom([]int{0, 2, 4}).Draw(t, "variant")
		helper := wsflate.Helper{Compressor: flateCtor(level), Decompressor: flateDtor}
		sameSize := rapid.Bool().Draw(t, "same-size")
		n0 := rapid.IntRange(0, 400).Draw(t, "n0")
		payloads := make([][]byte, k)
		for i := range payloads {
			n := n0
			if !sameSize {
				n = rapid.IntRange(0, 400).Draw(t, "n")
			}
			seed := rapid.Uint64().Draw(t, "seed")
			if rapid.Bool().Draw(t, "text") {
				payloads[i] = textBytes(seed, n)
			} else {
				payloads[i] = randomBytes(seed, n)
			}
		}
		opc := rapid.SampledFrom([]ws.OpCode{ws.OpText, ws.OpBinary}).Draw(t, "op")
		hx.Eval()
		hx.Class(fmt.Sprintf("batch/variant=%d/same-size=%v", variant, sameSize))
		hx.NonTrivial(hx.Hash("batch", k, variant, level, sameSize, n0, len(payloads[k-1])), func() interface{} {
			return map[string]interface{}{"test": "frame-helpers-batch", "k": k, "variant": variant, "level": level, "same_size": sameSize}
		})
		name := map[int]string{0: "wsflate.CompressFrame/DecompressFrame", 2: "Helper.CompressFrame/DecompressFrame", 4: "Helper.Compress/Decompress"}[variant]

		// --- compress all, then look at all
		comp := make([]ws.Frame, k)
		for i, p := range payloads {
			in := ws.NewFrame(opc, true, append([]byte(nil), p...))
			var err error
			switch variant {
			case 0:
				comp[i], err = wsflate.CompressFrame(in)
			case 2:
				comp[i], err = helper.CompressFrame(in)
			default:
				var b []byte
				b, err = helper.Compress(in.Payload)
				comp[i] = ws.Frame{Header: in.Header, Payload: b}
				comp[i].Header.Rsv |= 0x4
				comp[i].Header.Length = int64(len(b))
			}
			if err != nil {
				t.Fatalf("%s: frame %d of %d: %v", name, i, k, err)
			}
		}
		snapshots := make([][]byte, k)
		for i, c := range comp {
			if c.Header.Length != int64(len(c.Payload)) {
				t.Fatalf("%s: compressed frame %d of %d, looked at after the whole batch: Header.Length=%d, %d payload bytes", name, i, k, c.Header.Length, len(c.Payload))
			}
			got, msg := inflateMessage(c.Payload, true)
			if msg != "" {
				got, msg = inflateMessage(c.Payload, false)
			}
			if msg != "" {
				t.Fatalf("%s: compressed frame %d of %d (payload %s), looked at after the whole batch: %s", name, i, k, short(c.Payload), msg)
			}
			if !bytes.Equal(got, payloads[i]) {
				t.Fatalf("%s: compressed frame %d of %d, looked at after the whole batch, inflates to a different message: %s", name, i, k, firstDiff(got, payloads[i]))
			}
			snapshots[i] = append([]byte(nil), c.Payload...)
		}

		// --- decompress all, then look at all
		dec := make([]ws.Frame, k)
		for i := range comp {
			in := ws.Frame{Header: comp[i].Header, Payload: append([]byte(nil), snapshots[i]...)}
			var err error
			switch variant {
			case 0:
				dec[i], err = wsflate.DecompressFrame(in)
			case 2:
				dec[i], err = helper.DecompressFrame(in)
			default:
				var b []byte
				b, err = helper.Decompress(in.Payload)
				dec[i] = ws.Frame{Header: ws.NewFrame(opc, true, b).Header, Payload: b}
			}
			if err != nil {
				t.Fatalf("%s: decompressing frame %d of %d: %v", name, i, k, err)
			}
		}
		for i, d := range dec {
			want := ws.NewFrame(opc, true, payloads[i])
			if d.Header != want.Header {
				t.Fatalf("%s: decompressed frame %d of %d, looked at after the whole batch: header %s, want %s", name, i, k, hdrString(d.Header), hdrString(want.Header))
			}
			if !bytes.Equal(d.Payload, payloads[i]) {
				t.Fatalf("%s: decompressed frame %d of %d, looked at after the whole batch, differs from the original: %s", name, i, k, firstDiff(d.Payload, payloads[i]))
			}
		}
		for i, c := range comp {
			if !bytes.Equal(c.Payload, snapshots[i]) {
				t.Fatalf("%s: compressed frame %d of %d changed while other frames were decompressed", name, i, k)
			}
		}
	})
}

// ---------------------------------------------------------------------------
// bad compressors

// emission records every byte the compressor hands to the wsflate.Writer.
type emission struct {
	w   io.Writer
	all []byte
}

func (e *emission) Write(p []byte) (int, error) {
	e.all = append(e.all, p...)
	return e.w.Write(p)
}

// badCompressor wraps a real compress/flate writer and misbehaves as Mode says.
type badCompressor struct {
	mode    string
	out     *emission     // what reaches the wsflate.Writer
	fw      *flate.Writer // writes into stage
	stage   bytes.Buffer
	extra   []byte
	drop    int
	flushes int
	goodFor int // the first goodFor flushes behave correctly
	plan    *chunkPlan
}

func (b *badCompressor) forward(drop int) error {
	p := b.stage.Bytes()
	if drop > len(p) {
		drop = len(p)
	}
	var err error
	if b.plan != nil {
		err = b.plan.deliver(b.out, p[:len(p)-drop])
	} else {
		_, err = b.out.Write(p[:len(p)-drop])
	}
	b.stage.Reset()
	return err
}

func (b *badCompressor) Write(p []byte) (int, error) {
	if b.mode == "passthrough" && b.flushes >= b.goodFor {
		if len(p) == 0 {
			return 0, nil
		}
		return b.out.Write(p)
	}
	n, err := b.fw.Write(p)
	if err != nil {
		return n, err
	}
	if b.mode == "tiny" && b.flushes >= b.goodFor {
		return n, nil // output is thrown away at the flush
	}
	if b.mode != "truncate" {
		// truncation needs the whole flush output staged; the others stream
		if err := b.forward(0); err != nil {
			return n, err
		}
	}
	return n, nil
}

func (b *badCompressor) Flush() error {
	good := b.flushes < b.goodFor
	b.flushes++
	if good || b.mode == "good" {
		if err := b.fw.Flush(); err != nil {
			return err
		}
		return b.forward(0)
	}
	switch b.mode {
	case "noop", "passthrough":
		return nil
	case "tiny": // fewer than 4 bytes instead of the flush output
		b.stage.Reset()
		_, err := b.out.Write(b.extra)
		return err
	case "append":
		if err := b.fw.Flush(); err != nil {
			return err
		}
		if err := b.forward(0); err != nil {
			return err
		}
		_, err := b.out.Write(b.extra)
		return err
	case "truncate":
		if err := b.fw.Flush(); err != nil {
			return err
		}
		return b.forward(b.drop)
	}
	panic("unknown mode")
}

// Close makes badCompressor an io.Closer: the same misbehaviour when the
// message is ended by Close (the README wiring).
func (b *badCompressor) Close() error {
	good := b.flushes < b.goodFor
	b.flushes++
	if good || b.mode == "good" {
		if err := b.fw.Close(); err != nil {
			return err
		}
		return b.forward(0)
	}
	switch b.mode {
	case "noop", "passthrough":
		return nil
	case "tiny": // fewer than 4 bytes instead of the flush output
		b.stage.Reset()
		_, err := b.out.Write(b.extra)
		return err
	case "append":
		if err := b.fw.Close(); err != nil {
			return err
		}
		if err := b.forward(0); err != nil {
			return err
		}
		_, err := b.out.Write(b.extra)
		return err
	case "truncate":
		if err := b.fw.Close(); err != nil {
			return err
		}
		return b.forward(b.drop)
	}
	panic("unknown mode")
}

func TestBadCompressor(t *testing.T) {
	hx.Check(t, 4, func(t *rapid.T) {
		mode := rapid.SampledFrom([]string{"noop", "noop", "passthrough", "passthrough", "append", "append", "truncate", "truncate", "tiny", "tiny", "good"}).Draw(t, "mode")
		class, payload := genPayload(t, rapid.IntRange(0, 3).Draw(t, "allowbig") == 0)
		level := genLevel(t, "level")
		goodFor := rapid.SampledFrom([]int{0, 0, 0, 1, 2}).Draw(t, "goodfor")
		var em *emission
		var bc *badCompressor
		var plan *chunkPlan
		if rapid.IntRange(0, 2).Draw(t, "rechunk") != 0 {
			plan = genChunkPlan(t, "plan")
		}
		var extra []byte
		drop := 0
		switch mode {
		case "append":
			switch rapid.IntRange(0, 4).Draw(t, "extra.kind2") {
			case 0:
				extra = []byte{0}
			case 1:
				extra = []byte{0xff}
			case 2:
				extra = []byte{0x00, 0x00, 0xff} // shifted marker
			case 3:
				extra = append([]byte{0x01}, tail...) // looks like a final block: ends in the tail again
			default:
				extra = rapid.SliceOfN(rapid.Byte(), 1, 6).Draw(t, "extra.bytes")
			}
		case "tiny":
			extra = rapid.SampledFrom([][]byte{{0}, {0, 0}, {0, 0, 0xff}, {0xff}, {0xff, 0xff}, {0, 0xff, 0xff}, {1}, {0, 1}}).Draw(t, "tiny.bytes")
		case "truncate":
			drop = rapid.IntRange(1, 5).Draw(t, "drop")
		}
		// capability: the compressor may offer Write+Flush only (Close hidden)
		hideClose := rapid.IntRange(0, 2).Draw(t, "hide-close") == 0
		// reuse: a good message with a well-behaved compressor first, then Reset, then the misbehaviour
		reuse := rapid.IntRange(0, 2).Draw(t, "reuse")
		prelude := reuse != 0
		ctor := func(w io.Writer) wsflate.Compressor {
			em = &emission{w: w}
			m := mode
			if prelude {
				m = "good"
			}
			bc = &badCompressor{mode: m, out: em, goodFor: goodFor, plan: plan, extra: extra, drop: drop}
			bc.fw, _ = flate.NewWriter(&bc.stage, level)
			if hideClose {
				return struct{ wsflate.Compressor }{bc}
			}
			return bc
		}
		rec := tx.NewRec()
		var w *wsflate.Writer
		if prelude {
			w = wsflate.NewWriter(tx.NewRec(), ctor)
			if _, err := w.Write([]byte("previous message")); err != nil {
				t.Fatalf("prelude Write: %v", err)
			}
			if err := w.Flush(); err != nil {
				t.Fatalf("prelude Flush with a conforming compressor: %v", err)
			}
			if reuse == 2 && !hideClose {
				if err := w.Close(); err != nil {
					t.Fatalf("prelude Close with a conforming compressor: %v", err)
				}
			}
			prelude = false
			w.Reset(rec) // the compressor offers no Reset, so the constructor runs again
			hx.Class("bad/writer=reused")
		} else {
			w = wsflate.NewWriter(rec, ctor)
			hx.Class("bad/writer=fresh")
		}
		// history: writes and flushes, a few more calls after the end
		pieces := gen.Split(t, "split", payload, 4)
		type step struct {
			kind byte
			data []byte
		}
		var steps []step
		for _, p := range pieces {
			steps = append(steps, step{'w', p})
			if rapid.IntRange(0, 2).Draw(t, "flush?") == 0 {
				steps = append(steps, step{kind: 'f'})
			}
		}
		if rapid.IntRange(0, 2).Draw(t, "end-by-close") == 0 {
			steps = append(steps, step{kind: 'c'}) // message ended by Close alone
		} else {
			steps = append(steps, step{kind: 'f'})
		}
		for k := rapid.IntRange(0, 3).Draw(t, "more"); k > 0; k-- {
			switch rapid.IntRange(0, 2).Draw(t, "more.kind") {
			case 0:
				steps = append(steps, step{'w', []byte("more")})
			case 1:
				steps = append(steps, step{kind: 'f'})
			default:
				steps = append(steps, step{kind: 'c'})
			}
		}

		hx.Eval()
		hx.Class("bad/mode=" + mode)
		hx.Class(fmt.Sprintf("bad/compressor-has-close=%v", !hideClose))
		failedAt := -1
		detected, undetectable := 0, 0
		for i, s := range steps {
			var err error
			switch s.kind {
			case 'w':
				_, err = w.Write(s.data)
			case 'f':
				err = w.Flush()
			case 'c':
				err = w.Close()
			}
			if failedAt >= 0 {
				if err == nil {
					t.Fatalf("mode %s: step %d (%c) succeeded although step %d already reported the compressor as bad", mode, i, s.kind, failedAt)
				}
				continue
			}
			if s.kind == 'f' || s.kind == 'c' {
				call := map[byte]string{'f': "Flush", 'c': "Close"}[s.kind]
				endsInTail := bytes.HasSuffix(em.all, tail)
				switch {
				case !endsInTail && err == nil:
					t.Fatalf("mode %s (writer reuse %d) level %d payload %s(%d): %s at step %d returned nil although the compressor's output so far (%s) does not end in 0000ffff; destination got %s",
						mode, reuse, level, class, len(payload), call, i, shortTail(em.all), short(rec.Bytes()))
				case !endsInTail:
					detected++
					hx.Class("bad/reported-by=" + call)
				case err == nil:
					undetectable++
				}
				if s.kind == 'c' && err == nil {
					break // a closed compressor is not used further
				}
			}
			if err != nil {
				failedAt = i
				if w.Err() == nil {
					t.Fatalf("mode %s: step %d returned %v but Err() is nil", mode, i, err)
				}
			}
		}
		switch {
		case detected > 0:
			hx.Class("bad/outcome=reported")
			hx.NonTrivial(hx.Hash("bad", mode, reuse, class, len(payload), level, goodFor, failedAt, len(steps), fmt.Sprintf("%x", bcExtra(bc)), bc.drop), func() interface{} {
				return map[string]interface{}{"test": "bad-compressor", "mode": mode, "writer_reuse": reuse, "payload_class": class, "payload_len": len(payload), "level": level,
					"good_flushes_first": goodFor, "reported_at_step": failedAt, "steps": len(steps)}
			})
		case failedAt >= 0:
			hx.Class("bad/outcome=other-error")
		default:
			hx.Class("bad/outcome=tail-present-every-flush")
		}
		if mode == "good" && failedAt >= 0 && !(hideClose && steps[failedAt].kind == 'c') {
			t.Fatalf("a conforming compressor (compress/flate level %d behind a recording wrapper, output delivered as %v) was reported as bad at step %d", level, plan, failedAt)
		}
	})
}

func bcExtra(b *badCompressor) []byte { return b.extra }

func shortTail(b []byte) string {
	if len(b) > 16 {
		return fmt.Sprintf("…%x (%d bytes)", b[len(b)-16:], len(b))
	}
	return fmt.Sprintf("%x", b)
}
