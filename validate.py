#!/usr/bin/env python3
"""Validates MANIFEST.json and every evidence file against the schemas (needs python3-vt)."""
import glob, json, sys
import jsonschema
ok = True
def chk(path, schema):
    global ok
    try:
        jsonschema.validate(json.load(open(path)), json.load(open(schema)))
    except Exception as e:
        ok = False
        print("INVALID", path, str(e)[:300])
chk('/verif/MANIFEST.json', '/root/.vp/MANIFEST.schema.json')
for f in sorted(glob.glob('/verif/evidence/*.json')):
    chk(f, '/root/.vp/EVIDENCE.schema.json')
print("ok" if ok else "FAILED")
sys.exit(0 if ok else 1)
